
(** val negb : bool -> bool **)

let negb = function
| true -> false
| false -> true

type nat =
| O
| S of nat

(** val option_map : ('a1 -> 'a2) -> 'a1 option -> 'a2 option **)

let option_map f = function
| Some a -> Some (f a)
| None -> None

(** val fst : ('a1 * 'a2) -> 'a1 **)

let fst = function
| (x, _) -> x

(** val snd : ('a1 * 'a2) -> 'a2 **)

let snd = function
| (_, y) -> y

(** val length : 'a1 list -> nat **)

let rec length = function
| [] -> O
| _ :: l' -> S (length l')

(** val app : 'a1 list -> 'a1 list -> 'a1 list **)

let rec app l m =
  match l with
  | [] -> m
  | a :: l1 -> a :: (app l1 m)

type comparison =
| Eq
| Lt
| Gt

(** val compOpp : comparison -> comparison **)

let compOpp = function
| Eq -> Eq
| Lt -> Gt
| Gt -> Lt

module Coq__1 = struct
 (** val add : nat -> nat -> nat **)
 let rec add n m =
   match n with
   | O -> m
   | S p -> S (add p m)
end
include Coq__1

(** val mul : nat -> nat -> nat **)

let rec mul n m =
  match n with
  | O -> O
  | S p -> add m (mul p m)

(** val sub : nat -> nat -> nat **)

let rec sub n m =
  match n with
  | O -> n
  | S k -> (match m with
            | O -> n
            | S l -> sub k l)

type positive =
| XI of positive
| XO of positive
| XH

type z =
| Z0
| Zpos of positive
| Zneg of positive

(** val eqb : bool -> bool -> bool **)

let eqb b1 b2 =
  if b1 then b2 else if b2 then false else true

module Nat =
 struct
  (** val sub : nat -> nat -> nat **)

  let rec sub n m =
    match n with
    | O -> n
    | S k -> (match m with
              | O -> n
              | S l -> sub k l)

  (** val eqb : nat -> nat -> bool **)

  let rec eqb n m =
    match n with
    | O -> (match m with
            | O -> true
            | S _ -> false)
    | S n' -> (match m with
               | O -> false
               | S m' -> eqb n' m')

  (** val leb : nat -> nat -> bool **)

  let rec leb n m =
    match n with
    | O -> true
    | S n' -> (match m with
               | O -> false
               | S m' -> leb n' m')

  (** val ltb : nat -> nat -> bool **)

  let ltb n m =
    leb (S n) m

  (** val even : nat -> bool **)

  let rec even = function
  | O -> true
  | S n0 -> (match n0 with
             | O -> false
             | S n' -> even n')

  (** val odd : nat -> bool **)

  let odd n =
    negb (even n)

  (** val divmod : nat -> nat -> nat -> nat -> nat * nat **)

  let rec divmod x y q0 u =
    match x with
    | O -> (q0, u)
    | S x' ->
      (match u with
       | O -> divmod x' y (S q0) y
       | S u' -> divmod x' y q0 u')

  (** val div : nat -> nat -> nat **)

  let div x y = match y with
  | O -> y
  | S y' -> fst (divmod x y' O y')

  (** val modulo : nat -> nat -> nat **)

  let modulo x = function
  | O -> x
  | S y' -> sub y' (snd (divmod x y' O y'))
 end

module Pos =
 struct
  type mask =
  | IsNul
  | IsPos of positive
  | IsNeg
 end

module Coq_Pos =
 struct
  (** val succ : positive -> positive **)

  let rec succ = function
  | XI p -> XO (succ p)
  | XO p -> XI p
  | XH -> XO XH

  (** val add : positive -> positive -> positive **)

  let rec add x y =
    match x with
    | XI p ->
      (match y with
       | XI q0 -> XO (add_carry p q0)
       | XO q0 -> XI (add p q0)
       | XH -> XO (succ p))
    | XO p ->
      (match y with
       | XI q0 -> XI (add p q0)
       | XO q0 -> XO (add p q0)
       | XH -> XI p)
    | XH -> (match y with
             | XI q0 -> XO (succ q0)
             | XO q0 -> XI q0
             | XH -> XO XH)

  (** val add_carry : positive -> positive -> positive **)

  and add_carry x y =
    match x with
    | XI p ->
      (match y with
       | XI q0 -> XI (add_carry p q0)
       | XO q0 -> XO (add_carry p q0)
       | XH -> XI (succ p))
    | XO p ->
      (match y with
       | XI q0 -> XO (add_carry p q0)
       | XO q0 -> XI (add p q0)
       | XH -> XO (succ p))
    | XH ->
      (match y with
       | XI q0 -> XI (succ q0)
       | XO q0 -> XO (succ q0)
       | XH -> XI XH)

  (** val pred_double : positive -> positive **)

  let rec pred_double = function
  | XI p -> XI (XO p)
  | XO p -> XI (pred_double p)
  | XH -> XH

  type mask = Pos.mask =
  | IsNul
  | IsPos of positive
  | IsNeg

  (** val succ_double_mask : mask -> mask **)

  let succ_double_mask = function
  | IsNul -> IsPos XH
  | IsPos p -> IsPos (XI p)
  | IsNeg -> IsNeg

  (** val double_mask : mask -> mask **)

  let double_mask = function
  | IsPos p -> IsPos (XO p)
  | x0 -> x0

  (** val double_pred_mask : positive -> mask **)

  let double_pred_mask = function
  | XI p -> IsPos (XO (XO p))
  | XO p -> IsPos (XO (pred_double p))
  | XH -> IsNul

  (** val sub_mask : positive -> positive -> mask **)

  let rec sub_mask x y =
    match x with
    | XI p ->
      (match y with
       | XI q0 -> double_mask (sub_mask p q0)
       | XO q0 -> succ_double_mask (sub_mask p q0)
       | XH -> IsPos (XO p))
    | XO p ->
      (match y with
       | XI q0 -> succ_double_mask (sub_mask_carry p q0)
       | XO q0 -> double_mask (sub_mask p q0)
       | XH -> IsPos (pred_double p))
    | XH -> (match y with
             | XH -> IsNul
             | _ -> IsNeg)

  (** val sub_mask_carry : positive -> positive -> mask **)

  and sub_mask_carry x y =
    match x with
    | XI p ->
      (match y with
       | XI q0 -> succ_double_mask (sub_mask_carry p q0)
       | XO q0 -> double_mask (sub_mask p q0)
       | XH -> IsPos (pred_double p))
    | XO p ->
      (match y with
       | XI q0 -> double_mask (sub_mask_carry p q0)
       | XO q0 -> succ_double_mask (sub_mask_carry p q0)
       | XH -> double_pred_mask p)
    | XH -> IsNeg

  (** val sub : positive -> positive -> positive **)

  let sub x y =
    match sub_mask x y with
    | IsPos z0 -> z0
    | _ -> XH

  (** val mul : positive -> positive -> positive **)

  let rec mul x y =
    match x with
    | XI p -> add y (XO (mul p y))
    | XO p -> XO (mul p y)
    | XH -> y

  (** val size_nat : positive -> nat **)

  let rec size_nat = function
  | XI p0 -> S (size_nat p0)
  | XO p0 -> S (size_nat p0)
  | XH -> S O

  (** val compare_cont : comparison -> positive -> positive -> comparison **)

  let rec compare_cont r x y =
    match x with
    | XI p ->
      (match y with
       | XI q0 -> compare_cont r p q0
       | XO q0 -> compare_cont Gt p q0
       | XH -> Gt)
    | XO p ->
      (match y with
       | XI q0 -> compare_cont Lt p q0
       | XO q0 -> compare_cont r p q0
       | XH -> Gt)
    | XH -> (match y with
             | XH -> r
             | _ -> Lt)

  (** val compare : positive -> positive -> comparison **)

  let compare =
    compare_cont Eq

  (** val eqb : positive -> positive -> bool **)

  let rec eqb p q0 =
    match p with
    | XI p0 -> (match q0 with
                | XI q1 -> eqb p0 q1
                | _ -> false)
    | XO p0 -> (match q0 with
                | XO q1 -> eqb p0 q1
                | _ -> false)
    | XH -> (match q0 with
             | XH -> true
             | _ -> false)

  (** val ggcdn :
      nat -> positive -> positive -> positive * (positive * positive) **)

  let rec ggcdn n a b =
    match n with
    | O -> (XH, (a, b))
    | S n0 ->
      (match a with
       | XI a' ->
         (match b with
          | XI b' ->
            (match compare a' b' with
             | Eq -> (a, (XH, XH))
             | Lt ->
               let (g, p) = ggcdn n0 (sub b' a') a in
               let (ba, aa) = p in (g, (aa, (add aa (XO ba))))
             | Gt ->
               let (g, p) = ggcdn n0 (sub a' b') b in
               let (ab, bb) = p in (g, ((add bb (XO ab)), bb)))
          | XO b0 ->
            let (g, p) = ggcdn n0 a b0 in
            let (aa, bb) = p in (g, (aa, (XO bb)))
          | XH -> (XH, (a, XH)))
       | XO a0 ->
         (match b with
          | XI _ ->
            let (g, p) = ggcdn n0 a0 b in
            let (aa, bb) = p in (g, ((XO aa), bb))
          | XO b0 -> let (g, p) = ggcdn n0 a0 b0 in ((XO g), p)
          | XH -> (XH, (a, XH)))
       | XH -> (XH, (XH, b)))

  (** val ggcd : positive -> positive -> positive * (positive * positive) **)

  let ggcd a b =
    ggcdn (Coq__1.add (size_nat a) (size_nat b)) a b

  (** val iter_op : ('a1 -> 'a1 -> 'a1) -> positive -> 'a1 -> 'a1 **)

  let rec iter_op op p a =
    match p with
    | XI p0 -> op a (iter_op op p0 (op a a))
    | XO p0 -> iter_op op p0 (op a a)
    | XH -> a

  (** val to_nat : positive -> nat **)

  let to_nat x =
    iter_op Coq__1.add x (S O)

  (** val of_succ_nat : nat -> positive **)

  let rec of_succ_nat = function
  | O -> XH
  | S x -> succ (of_succ_nat x)
 end

module Z =
 struct
  (** val double : z -> z **)

  let double = function
  | Z0 -> Z0
  | Zpos p -> Zpos (XO p)
  | Zneg p -> Zneg (XO p)

  (** val succ_double : z -> z **)

  let succ_double = function
  | Z0 -> Zpos XH
  | Zpos p -> Zpos (XI p)
  | Zneg p -> Zneg (Coq_Pos.pred_double p)

  (** val pred_double : z -> z **)

  let pred_double = function
  | Z0 -> Zneg XH
  | Zpos p -> Zpos (Coq_Pos.pred_double p)
  | Zneg p -> Zneg (XI p)

  (** val pos_sub : positive -> positive -> z **)

  let rec pos_sub x y =
    match x with
    | XI p ->
      (match y with
       | XI q0 -> double (pos_sub p q0)
       | XO q0 -> succ_double (pos_sub p q0)
       | XH -> Zpos (XO p))
    | XO p ->
      (match y with
       | XI q0 -> pred_double (pos_sub p q0)
       | XO q0 -> double (pos_sub p q0)
       | XH -> Zpos (Coq_Pos.pred_double p))
    | XH ->
      (match y with
       | XI q0 -> Zneg (XO q0)
       | XO q0 -> Zneg (Coq_Pos.pred_double q0)
       | XH -> Z0)

  (** val add : z -> z -> z **)

  let add x y =
    match x with
    | Z0 -> y
    | Zpos x' ->
      (match y with
       | Z0 -> x
       | Zpos y' -> Zpos (Coq_Pos.add x' y')
       | Zneg y' -> pos_sub x' y')
    | Zneg x' ->
      (match y with
       | Z0 -> x
       | Zpos y' -> pos_sub y' x'
       | Zneg y' -> Zneg (Coq_Pos.add x' y'))

  (** val opp : z -> z **)

  let opp = function
  | Z0 -> Z0
  | Zpos x0 -> Zneg x0
  | Zneg x0 -> Zpos x0

  (** val sub : z -> z -> z **)

  let sub m n =
    add m (opp n)

  (** val mul : z -> z -> z **)

  let mul x y =
    match x with
    | Z0 -> Z0
    | Zpos x' ->
      (match y with
       | Z0 -> Z0
       | Zpos y' -> Zpos (Coq_Pos.mul x' y')
       | Zneg y' -> Zneg (Coq_Pos.mul x' y'))
    | Zneg x' ->
      (match y with
       | Z0 -> Z0
       | Zpos y' -> Zneg (Coq_Pos.mul x' y')
       | Zneg y' -> Zpos (Coq_Pos.mul x' y'))

  (** val compare : z -> z -> comparison **)

  let compare x y =
    match x with
    | Z0 -> (match y with
             | Z0 -> Eq
             | Zpos _ -> Lt
             | Zneg _ -> Gt)
    | Zpos x' -> (match y with
                  | Zpos y' -> Coq_Pos.compare x' y'
                  | _ -> Gt)
    | Zneg x' ->
      (match y with
       | Zneg y' -> compOpp (Coq_Pos.compare x' y')
       | _ -> Lt)

  (** val sgn : z -> z **)

  let sgn = function
  | Z0 -> Z0
  | Zpos _ -> Zpos XH
  | Zneg _ -> Zneg XH

  (** val leb : z -> z -> bool **)

  let leb x y =
    match compare x y with
    | Gt -> false
    | _ -> true

  (** val ltb : z -> z -> bool **)

  let ltb x y =
    match compare x y with
    | Lt -> true
    | _ -> false

  (** val eqb : z -> z -> bool **)

  let eqb x y =
    match x with
    | Z0 -> (match y with
             | Z0 -> true
             | _ -> false)
    | Zpos p -> (match y with
                 | Zpos q0 -> Coq_Pos.eqb p q0
                 | _ -> false)
    | Zneg p -> (match y with
                 | Zneg q0 -> Coq_Pos.eqb p q0
                 | _ -> false)

  (** val abs : z -> z **)

  let abs = function
  | Zneg p -> Zpos p
  | x -> x

  (** val to_nat : z -> nat **)

  let to_nat = function
  | Zpos p -> Coq_Pos.to_nat p
  | _ -> O

  (** val of_nat : nat -> z **)

  let of_nat = function
  | O -> Z0
  | S n0 -> Zpos (Coq_Pos.of_succ_nat n0)

  (** val to_pos : z -> positive **)

  let to_pos = function
  | Zpos p -> p
  | _ -> XH

  (** val pos_div_eucl : positive -> z -> z * z **)

  let rec pos_div_eucl a b =
    match a with
    | XI a' ->
      let (q0, r) = pos_div_eucl a' b in
      let r' = add (mul (Zpos (XO XH)) r) (Zpos XH) in
      if ltb r' b
      then ((mul (Zpos (XO XH)) q0), r')
      else ((add (mul (Zpos (XO XH)) q0) (Zpos XH)), (sub r' b))
    | XO a' ->
      let (q0, r) = pos_div_eucl a' b in
      let r' = mul (Zpos (XO XH)) r in
      if ltb r' b
      then ((mul (Zpos (XO XH)) q0), r')
      else ((add (mul (Zpos (XO XH)) q0) (Zpos XH)), (sub r' b))
    | XH -> if leb (Zpos (XO XH)) b then (Z0, (Zpos XH)) else ((Zpos XH), Z0)

  (** val div_eucl : z -> z -> z * z **)

  let div_eucl a b =
    match a with
    | Z0 -> (Z0, Z0)
    | Zpos a' ->
      (match b with
       | Z0 -> (Z0, a)
       | Zpos _ -> pos_div_eucl a' b
       | Zneg b' ->
         let (q0, r) = pos_div_eucl a' (Zpos b') in
         (match r with
          | Z0 -> ((opp q0), Z0)
          | _ -> ((opp (add q0 (Zpos XH))), (add b r))))
    | Zneg a' ->
      (match b with
       | Z0 -> (Z0, a)
       | Zpos _ ->
         let (q0, r) = pos_div_eucl a' b in
         (match r with
          | Z0 -> ((opp q0), Z0)
          | _ -> ((opp (add q0 (Zpos XH))), (sub b r)))
       | Zneg b' -> let (q0, r) = pos_div_eucl a' (Zpos b') in (q0, (opp r)))

  (** val div : z -> z -> z **)

  let div a b =
    let (q0, _) = div_eucl a b in q0

  (** val ggcd : z -> z -> z * (z * z) **)

  let ggcd a b =
    match a with
    | Z0 -> ((abs b), (Z0, (sgn b)))
    | Zpos a0 ->
      (match b with
       | Z0 -> ((abs a), ((sgn a), Z0))
       | Zpos b0 ->
         let (g, p) = Coq_Pos.ggcd a0 b0 in
         let (aa, bb) = p in ((Zpos g), ((Zpos aa), (Zpos bb)))
       | Zneg b0 ->
         let (g, p) = Coq_Pos.ggcd a0 b0 in
         let (aa, bb) = p in ((Zpos g), ((Zpos aa), (Zneg bb))))
    | Zneg a0 ->
      (match b with
       | Z0 -> ((abs a), ((sgn a), Z0))
       | Zpos b0 ->
         let (g, p) = Coq_Pos.ggcd a0 b0 in
         let (aa, bb) = p in ((Zpos g), ((Zneg aa), (Zpos bb)))
       | Zneg b0 ->
         let (g, p) = Coq_Pos.ggcd a0 b0 in
         let (aa, bb) = p in ((Zpos g), ((Zneg aa), (Zneg bb))))
 end

(** val fact : nat -> nat **)

let rec fact = function
| O -> S O
| S n0 -> mul (S n0) (fact n0)

(** val zeq_bool : z -> z -> bool **)

let zeq_bool x y =
  match Z.compare x y with
  | Eq -> true
  | _ -> false

(** val hd : 'a1 -> 'a1 list -> 'a1 **)

let hd default = function
| [] -> default
| x :: _ -> x

(** val tl : 'a1 list -> 'a1 list **)

let tl = function
| [] -> []
| _ :: m -> m

(** val nth : nat -> 'a1 list -> 'a1 -> 'a1 **)

let rec nth n l default =
  match n with
  | O -> (match l with
          | [] -> default
          | x :: _ -> x)
  | S m -> (match l with
            | [] -> default
            | _ :: t -> nth m t default)

(** val nth_error : 'a1 list -> nat -> 'a1 option **)

let rec nth_error l = function
| O -> (match l with
        | [] -> None
        | x :: _ -> Some x)
| S n0 -> (match l with
           | [] -> None
           | _ :: l0 -> nth_error l0 n0)

(** val last : 'a1 list -> 'a1 -> 'a1 **)

let rec last l d =
  match l with
  | [] -> d
  | a :: l0 -> (match l0 with
                | [] -> a
                | _ :: _ -> last l0 d)

(** val removelast : 'a1 list -> 'a1 list **)

let rec removelast = function
| [] -> []
| a :: l0 -> (match l0 with
              | [] -> []
              | _ :: _ -> a :: (removelast l0))

(** val rev : 'a1 list -> 'a1 list **)

let rec rev = function
| [] -> []
| x :: l' -> app (rev l') (x :: [])

(** val concat : 'a1 list list -> 'a1 list **)

let rec concat = function
| [] -> []
| x :: l0 -> app x (concat l0)

(** val map : ('a1 -> 'a2) -> 'a1 list -> 'a2 list **)

let rec map f = function
| [] -> []
| a :: t -> (f a) :: (map f t)

(** val fold_left : ('a1 -> 'a2 -> 'a1) -> 'a2 list -> 'a1 -> 'a1 **)

let rec fold_left f l a0 =
  match l with
  | [] -> a0
  | b :: t -> fold_left f t (f a0 b)

(** val fold_right : ('a2 -> 'a1 -> 'a1) -> 'a1 -> 'a2 list -> 'a1 **)

let rec fold_right f a0 = function
| [] -> a0
| b :: t -> f b (fold_right f a0 t)

(** val existsb : ('a1 -> bool) -> 'a1 list -> bool **)

let rec existsb f = function
| [] -> false
| a :: l0 -> (||) (f a) (existsb f l0)

(** val forallb : ('a1 -> bool) -> 'a1 list -> bool **)

let rec forallb f = function
| [] -> true
| a :: l0 -> (&&) (f a) (forallb f l0)

(** val filter : ('a1 -> bool) -> 'a1 list -> 'a1 list **)

let rec filter f = function
| [] -> []
| x :: l0 -> if f x then x :: (filter f l0) else filter f l0

(** val combine : 'a1 list -> 'a2 list -> ('a1 * 'a2) list **)

let rec combine l l' =
  match l with
  | [] -> []
  | x :: tl0 ->
    (match l' with
     | [] -> []
     | y :: tl' -> (x, y) :: (combine tl0 tl'))

(** val firstn : nat -> 'a1 list -> 'a1 list **)

let rec firstn n l =
  match n with
  | O -> []
  | S n0 -> (match l with
             | [] -> []
             | a :: l0 -> a :: (firstn n0 l0))

(** val skipn : nat -> 'a1 list -> 'a1 list **)

let rec skipn n l =
  match n with
  | O -> l
  | S n0 -> (match l with
             | [] -> []
             | _ :: l0 -> skipn n0 l0)

(** val seq : nat -> nat -> nat list **)

let rec seq start = function
| O -> []
| S len0 -> start :: (seq (S start) len0)

type q = { qnum : z; qden : positive }

(** val inject_Z : z -> q **)

let inject_Z x =
  { qnum = x; qden = XH }

(** val qeq_bool : q -> q -> bool **)

let qeq_bool x y =
  zeq_bool (Z.mul x.qnum (Zpos y.qden)) (Z.mul y.qnum (Zpos x.qden))

(** val qle_bool : q -> q -> bool **)

let qle_bool x y =
  Z.leb (Z.mul x.qnum (Zpos y.qden)) (Z.mul y.qnum (Zpos x.qden))

(** val qplus : q -> q -> q **)

let qplus x y =
  { qnum = (Z.add (Z.mul x.qnum (Zpos y.qden)) (Z.mul y.qnum (Zpos x.qden)));
    qden = (Coq_Pos.mul x.qden y.qden) }

(** val qmult : q -> q -> q **)

let qmult x y =
  { qnum = (Z.mul x.qnum y.qnum); qden = (Coq_Pos.mul x.qden y.qden) }

(** val qopp : q -> q **)

let qopp x =
  { qnum = (Z.opp x.qnum); qden = x.qden }

(** val qminus : q -> q -> q **)

let qminus x y =
  qplus x (qopp y)

(** val qinv : q -> q **)

let qinv x =
  match x.qnum with
  | Z0 -> { qnum = Z0; qden = XH }
  | Zpos p -> { qnum = (Zpos x.qden); qden = p }
  | Zneg p -> { qnum = (Zneg x.qden); qden = p }

(** val qdiv : q -> q -> q **)

let qdiv x y =
  qmult x (qinv y)

(** val qred : q -> q **)

let qred q0 =
  let { qnum = q1; qden = q2 } = q0 in
  let (r1, r2) = snd (Z.ggcd q1 (Zpos q2)) in
  { qnum = r1; qden = (Z.to_pos r2) }

(** val qfloor : q -> z **)

let qfloor x =
  let { qnum = n; qden = d } = x in Z.div n (Zpos d)

type ekind =
| EAssert
| EValue
| EType
| EIndex
| EZeroDiv
| EOther

type 'a res =
| Ok of 'a
| Err of ekind
| NoFuel

(** val bind : 'a1 res -> ('a1 -> 'a2 res) -> 'a2 res **)

let bind r f =
  match r with
  | Ok a -> f a
  | Err k -> Err k
  | NoFuel -> NoFuel

(** val assert_ : bool -> unit res **)

let assert_ = function
| true -> Ok ()
| false -> Err EAssert

(** val mapM : ('a1 -> 'a2 res) -> 'a1 list -> 'a2 list res **)

let rec mapM f = function
| [] -> Ok []
| x :: xs -> bind (f x) (fun y -> bind (mapM f xs) (fun ys -> Ok (y :: ys)))

(** val forallM : ('a1 -> bool res) -> 'a1 list -> bool res **)

let rec forallM f = function
| [] -> Ok true
| x :: xs -> bind (f x) (fun b -> if b then forallM f xs else Ok false)

(** val existsM : ('a1 -> bool res) -> 'a1 list -> bool res **)

let rec existsM f = function
| [] -> Ok false
| x :: xs -> bind (f x) (fun b -> if b then Ok true else existsM f xs)

(** val qlt_bool : q -> q -> bool **)

let qlt_bool a b =
  negb (qle_bool b a)

(** val qmin' : q -> q -> q **)

let qmin' a b =
  if qle_bool a b then a else b

(** val qmax' : q -> q -> q **)

let qmax' a b =
  if qle_bool a b then b else a

(** val qabs' : q -> q **)

let qabs' a =
  if qle_bool { qnum = Z0; qden = XH } a then a else qopp a

(** val qhalf : q **)

let qhalf =
  { qnum = (Zpos XH); qden = (XO XH) }

(** val qclamp01 : q -> q **)

let qclamp01 a =
  qmin' { qnum = (Zpos XH); qden = XH } (qmax' a { qnum = Z0; qden = XH })

(** val nQ : nat -> q **)

let nQ n =
  inject_Z (Z.of_nat n)

(** val tol6 : q **)

let tol6 =
  { qnum = (Zpos (XI (XO (XI (XI (XO (XO (XO (XI (XI (XO (XI (XI (XO (XI (XI
    (XI (XI (XO (XI (XO (XI (XI (XO (XI (XO (XO (XO (XO (XO (XI (XO (XI (XI
    (XI (XI (XO (XI (XI (XI (XI (XO (XI (XI (XO (XO (XO (XI (XI (XO (XO (XO
    (XO XH))))))))))))))))))))))))))))))))))))))))))))))))))))); qden = (XO
    (XO (XO (XO (XO (XO (XO (XO (XO (XO (XO (XO (XO (XO (XO (XO (XO (XO (XO
    (XO (XO (XO (XO (XO (XO (XO (XO (XO (XO (XO (XO (XO (XO (XO (XO (XO (XO
    (XO (XO (XO (XO (XO (XO (XO (XO (XO (XO (XO (XO (XO (XO (XO (XO (XO (XO
    (XO (XO (XO (XO (XO (XO (XO (XO (XO (XO (XO (XO (XO (XO (XO (XO (XO
    XH)))))))))))))))))))))))))))))))))))))))))))))))))))))))))))))))))))))))) }

(** val tol9 : q **)

let tol9 =
  { qnum = (Zpos (XI (XO (XI (XO (XI (XO (XO (XI (XO (XI (XI (XO (XI (XO (XI
    (XI (XO (XI (XI (XO (XO (XI (XO (XO (XO (XO (XO (XI (XO (XI (XI (XI (XI
    (XI (XO (XI (XO (XO (XO (XO (XO (XI (XI (XI (XO (XI (XO (XO (XI (XO (XO
    (XO XH))))))))))))))))))))))))))))))))))))))))))))))))))))); qden = (XO
    (XO (XO (XO (XO (XO (XO (XO (XO (XO (XO (XO (XO (XO (XO (XO (XO (XO (XO
    (XO (XO (XO (XO (XO (XO (XO (XO (XO (XO (XO (XO (XO (XO (XO (XO (XO (XO
    (XO (XO (XO (XO (XO (XO (XO (XO (XO (XO (XO (XO (XO (XO (XO (XO (XO (XO
    (XO (XO (XO (XO (XO (XO (XO (XO (XO (XO (XO (XO (XO (XO (XO (XO (XO (XO
    (XO (XO (XO (XO (XO (XO (XO (XO (XO
    XH)))))))))))))))))))))))))))))))))))))))))))))))))))))))))))))))))))))))))))))))))) }

type point = q * q

(** val px : point -> q **)

let px =
  fst

(** val py : point -> q **)

let py =
  snd

(** val padd : point -> point -> point **)

let padd p q0 =
  ((qplus (px p) (px q0)), (qplus (py p) (py q0)))

(** val psub : point -> point -> point **)

let psub p q0 =
  ((qminus (px p) (px q0)), (qminus (py p) (py q0)))

(** val pscale : q -> point -> point **)

let pscale k p =
  ((qmult k (px p)), (qmult k (py p)))

(** val inner : point -> point -> q **)

let inner p q0 =
  qplus (qmult (px p) (px q0)) (qmult (py p) (py q0))

(** val cross : point -> point -> q **)

let cross p q0 =
  qminus (qmult (px p) (py q0)) (qmult (py p) (px q0))

(** val norm2 : point -> q **)

let norm2 p =
  inner p p

(** val pzero : point **)

let pzero =
  ({ qnum = Z0; qden = XH }, { qnum = Z0; qden = XH })

(** val pred_ : point -> point **)

let pred_ p =
  ((qred (px p)), (qred (py p)))

(** val peqb : point -> point -> bool **)

let peqb p q0 =
  (&&) (qeq_bool (px p) (px q0)) (qeq_bool (py p) (py q0))

(** val psum : point list -> point **)

let psum l =
  fold_right padd pzero l

(** val pt_eq : point -> point -> bool **)

let pt_eq p q0 =
  (&&) (negb (qlt_bool tol9 (qabs' (qminus (px p) (px q0)))))
    (negb (qlt_bool tol9 (qabs' (qminus (py p) (py q0)))))

type seg = point list

type jordan = seg list

(** val map2 : ('a1 -> 'a2 -> 'a3) -> 'a1 list -> 'a2 list -> 'a3 list **)

let rec map2 f l m =
  match l with
  | [] -> []
  | a :: l' -> (match m with
                | [] -> []
                | b :: m' -> (f a b) :: (map2 f l' m'))

(** val pairs_of : 'a1 list -> ('a1 * 'a1) list **)

let rec pairs_of = function
| [] -> []
| a :: t -> (match t with
             | [] -> []
             | b :: _ -> (a, b) :: (pairs_of t))

(** val last_pt : seg -> point **)

let last_pt s =
  last s pzero

(** val first_pt : seg -> point **)

let first_pt s =
  hd pzero s

(** val set_nth : nat -> 'a1 -> 'a1 list -> 'a1 list **)

let rec set_nth n x l =
  match n with
  | O -> (match l with
          | [] -> []
          | _ :: t -> x :: t)
  | S n' -> (match l with
             | [] -> []
             | h :: t -> h :: (set_nth n' x t))

(** val set_last : 'a1 -> 'a1 list -> 'a1 list **)

let set_last x l =
  app (removelast l) (x :: [])

(** val set_first : 'a1 -> 'a1 list -> 'a1 list **)

let set_first x = function
| [] -> []
| _ :: t -> x :: t

(** val rotl : nat -> 'a1 list -> 'a1 list **)

let rotl k l =
  app (skipn k l) (firstn k l)

(** val qsum : q list -> q **)

let rec qsum = function
| [] -> { qnum = Z0; qden = XH }
| x :: t -> qplus x (qsum t)

(** val zsum : z list -> z **)

let rec zsum = function
| [] -> Z0
| x :: t -> Z.add x (zsum t)

(** val index_where : ('a1 -> bool) -> 'a1 list -> nat option **)

let rec index_where f = function
| [] -> None
| x :: t ->
  if f x then Some O else option_map (fun x0 -> S x0) (index_where f t)

(** val insert_sorted :
    ('a1 -> 'a1 -> bool) -> 'a1 -> 'a1 list -> 'a1 list **)

let rec insert_sorted le x l = match l with
| [] -> x :: []
| y :: t -> if le x y then x :: l else y :: (insert_sorted le x t)

(** val sort_by : ('a1 -> 'a1 -> bool) -> 'a1 list -> 'a1 list **)

let sort_by le l =
  fold_right (insert_sorted le) [] l

(** val dedup : ('a1 -> 'a1 -> bool) -> 'a1 list -> 'a1 list **)

let rec dedup eqb0 = function
| [] -> []
| x :: t -> if existsb (eqb0 x) t then dedup eqb0 t else x :: (dedup eqb0 t)

type sx =
| A of z
| L of sx list

(** val comb : nat -> nat -> z **)

let comb n i =
  let prod0 =
    fold_left Z.mul (map Z.of_nat (seq (add (sub n i) (S O)) i)) (Zpos XH)
  in
  fold_left Z.div (map Z.of_nat (seq (S (S O)) (sub i (S O)))) prod0

(** val caract : nat -> nat -> nat -> z **)

let caract d i j =
  if Nat.leb j (sub d i)
  then let v = Z.mul (comb d i) (comb (sub d i) j) in
       if Nat.odd (add (add d i) j) then Z.opp v else v
  else Z0

(** val degree : seg -> nat **)

let degree s =
  sub (length s) (S O)

(** val canon : seg -> point list **)

let canon s =
  let d = degree s in
  map (fun j ->
    psum
      (map2 (fun i p -> pscale (inject_Z (caract d i j)) p) (seq O (S d)) s))
    (seq O (S d))

(** val horner : q -> point list -> point **)

let horner t cs =
  fold_left (fun v c -> padd (pscale t v) c) cs pzero

(** val eval : seg -> q -> point **)

let eval s t =
  horner t (canon s)

(** val evalr : seg -> q -> point **)

let evalr s t =
  pred_ (eval s t)

(** val derivate : seg -> seg **)

let derivate s = match s with
| [] -> []
| _ :: l ->
  (match l with
   | [] -> pzero :: []
   | _ :: _ ->
     map (fun ab -> pscale (nQ (degree s)) (psub (snd ab) (fst ab)))
       (pairs_of s))

(** val lerp : q -> point -> point -> point **)

let lerp t a b =
  padd (pscale (qminus { qnum = (Zpos XH); qden = XH } t) a) (pscale t b)

(** val casteljau_step : q -> seg -> seg **)

let casteljau_step t s =
  map (fun ab -> lerp t (fst ab) (snd ab)) (pairs_of s)

(** val casteljau_levels : nat -> q -> seg -> seg list **)

let rec casteljau_levels fuel t s =
  match fuel with
  | O -> []
  | S f ->
    s :: (match s with
          | [] -> []
          | _ :: l ->
            (match l with
             | [] -> []
             | _ :: _ -> casteljau_levels f t (casteljau_step t s)))

(** val split_at : q -> seg -> seg * seg **)

let split_at t s =
  let lv = casteljau_levels (length s) t s in
  ((map first_pt lv), (rev (map last_pt lv)))

(** val split_many_from : q -> q list -> seg -> seg list **)

let rec split_many_from t0 ts s =
  match ts with
  | [] -> s :: []
  | t :: ts' ->
    let (l, r) =
      split_at
        (qdiv (qminus t t0) (qminus { qnum = (Zpos XH); qden = XH } t0)) s
    in
    l :: (split_many_from t ts' r)

(** val split_many : q list -> seg -> seg list **)

let split_many ts s =
  map (map pred_) (split_many_from { qnum = Z0; qden = XH } ts s)

type box = ((q * q) * q) * q

(** val qmin_list : q -> q list -> q **)

let qmin_list d = function
| [] -> d
| x :: t -> fold_left qmin' t x

(** val qmax_list : q -> q list -> q **)

let qmax_list d = function
| [] -> d
| x :: t -> fold_left qmax' t x

(** val seg_box : seg -> box **)

let seg_box s =
  ((((qmin_list { qnum = Z0; qden = XH } (map px s)),
    (qmin_list { qnum = Z0; qden = XH } (map py s))),
    (qmax_list { qnum = Z0; qden = XH } (map px s))),
    (qmax_list { qnum = Z0; qden = XH } (map py s)))

(** val bxmin : box -> q **)

let bxmin b =
  fst (fst (fst b))

(** val bymin : box -> q **)

let bymin b =
  snd (fst (fst b))

(** val bxmax : box -> q **)

let bxmax b =
  snd (fst b)

(** val bymax : box -> q **)

let bymax =
  snd

(** val box_contains : box -> point -> bool **)

let box_contains b p =
  (&&)
    ((&&)
      ((&&) (negb (qlt_bool (px p) (qminus (bxmin b) tol6)))
        (negb (qlt_bool (py p) (qminus (bymin b) tol6))))
      (negb (qlt_bool (qplus (bxmax b) tol6) (px p))))
    (negb (qlt_bool (qplus (bymax b) tol6) (py p)))

(** val box_or : box -> box -> box **)

let box_or a b =
  ((((qmin' (bxmin a) (bxmin b)), (qmin' (bymin a) (bymin b))),
    (qmax' (bxmax a) (bxmax b))), (qmax' (bymax a) (bymax b)))

(** val box_and : box -> box -> box option **)

let box_and a b =
  let xmin = qmax' (bxmin a) (bxmin b) in
  let xmax = qmin' (bxmax a) (bxmax b) in
  if qlt_bool xmax xmin
  then None
  else let ymin = qmax' (bymin a) (bymin b) in
       let ymax = qmin' (bymax a) (bymax b) in
       if qlt_bool ymax ymin then None else Some (((xmin, ymin), xmax), ymax)

(** val closed_linspace : nat -> q list **)

let closed_linspace n =
  map (fun k -> qred (qdiv (nQ k) (nQ (sub n (S O))))) (seq O n)

(** val open_linspace : nat -> q list **)

let open_linspace n =
  map (fun k ->
    qred (qdiv (nQ (add (mul (S (S O)) k) (S O))) (nQ (mul (S (S O)) n))))
    (seq O n)

(** val qpow : q -> nat -> q **)

let rec qpow x = function
| O -> { qnum = (Zpos XH); qden = XH }
| S k -> qmult x (qpow x k)

(** val binom : nat -> nat -> z **)

let binom n k =
  Z.of_nat (Nat.div (fact n) (mul (fact k) (fact (sub n k))))

(** val bernstein : seg -> q -> point **)

let bernstein s t =
  let d = degree s in
  psum
    (map2 (fun i p ->
      pscale
        (qmult
          (qmult (inject_Z (binom d i))
            (qpow (qminus { qnum = (Zpos XH); qden = XH } t) (sub d i)))
          (qpow t i)) p) (seq O (S d)) s)

type poly = q list

(** val poly_add : poly -> poly -> poly **)

let rec poly_add p q0 =
  match p with
  | [] -> q0
  | a :: p' ->
    (match q0 with
     | [] -> p
     | b :: q' -> (qplus a b) :: (poly_add p' q'))

(** val poly_scale : q -> poly -> poly **)

let poly_scale k p =
  map (qmult k) p

(** val poly_mul : poly -> poly -> poly **)

let rec poly_mul p q0 =
  match p with
  | [] -> []
  | a :: p' ->
    poly_add (poly_scale a q0) ({ qnum = Z0; qden = XH } :: (poly_mul p' q0))

(** val pint01_from : nat -> poly -> q **)

let rec pint01_from k = function
| [] -> { qnum = Z0; qden = XH }
| c :: t -> qplus (qdiv c (nQ (S k))) (pint01_from (S k) t)

(** val pint01 : poly -> q **)

let pint01 p =
  pint01_from O p

(** val lagrange_basis : q list -> nat -> poly **)

let lagrange_basis xs i =
  let xi = nth i xs { qnum = Z0; qden = XH } in
  fold_left (fun acc jx ->
    let (j, xj) = jx in
    if Nat.eqb j i
    then acc
    else map qred
           (poly_mul acc
             (poly_scale (qinv (qminus xi xj)) ((qopp xj) :: ({ qnum = (Zpos
               XH); qden = XH } :: []))))) (combine (seq O (length xs)) xs)
    ({ qnum = (Zpos XH); qden = XH } :: [])

(** val nc_weights : nat -> q list **)

let nc_weights n =
  let xs = open_linspace n in
  map (fun i -> qred (pint01 (lagrange_basis xs i))) (seq O n)

(** val nc_table : q list list **)

let nc_table =
  [] :: (({ qnum = (Zpos XH); qden = XH } :: []) :: (({ qnum = (Zpos XH);
    qden = (XO XH) } :: ({ qnum = (Zpos XH); qden = (XO
    XH) } :: [])) :: (({ qnum = (Zpos (XI XH)); qden = (XO (XO (XO
    XH))) } :: ({ qnum = (Zpos XH); qden = (XO (XO XH)) } :: ({ qnum = (Zpos
    (XI XH)); qden = (XO (XO (XO XH))) } :: []))) :: (({ qnum = (Zpos (XI (XO
    (XI XH)))); qden = (XO (XO (XO (XO (XI XH))))) } :: ({ qnum = (Zpos (XI
    (XI (XO XH)))); qden = (XO (XO (XO (XO (XI XH))))) } :: ({ qnum = (Zpos
    (XI (XI (XO XH)))); qden = (XO (XO (XO (XO (XI XH))))) } :: ({ qnum =
    (Zpos (XI (XO (XI XH)))); qden = (XO (XO (XO (XO (XI
    XH))))) } :: [])))) :: (({ qnum = (Zpos (XI (XI (XO (XO (XI (XO (XO (XO
    XH))))))))); qden = (XO (XO (XO (XO (XO (XO (XO (XI (XO (XO
    XH)))))))))) } :: ({ qnum = (Zpos (XI (XO (XO (XI XH))))); qden = (XO (XO
    (XO (XO (XO (XI (XO (XO XH)))))))) } :: ({ qnum = (Zpos (XI (XI (XO (XO
    (XO (XO XH))))))); qden = (XO (XO (XO (XO (XO (XO (XI
    XH))))))) } :: ({ qnum = (Zpos (XI (XO (XO (XI XH))))); qden = (XO (XO
    (XO (XO (XO (XI (XO (XO XH)))))))) } :: ({ qnum = (Zpos (XI (XI (XO (XO
    (XI (XO (XO (XO XH))))))))); qden = (XO (XO (XO (XO (XO (XO (XO (XI (XO
    (XO XH)))))))))) } :: []))))) :: (({ qnum = (Zpos (XI (XI (XI (XO (XI (XI
    (XI XH)))))))); qden = (XO (XO (XO (XO (XO (XO (XO (XO (XI (XO
    XH)))))))))) } :: ({ qnum = (Zpos (XI (XI (XO (XI (XO (XO (XO XH))))))));
    qden = (XO (XO (XO (XO (XO (XO (XO (XO (XI (XO
    XH)))))))))) } :: ({ qnum = (Zpos (XI (XI (XI (XI (XI (XI XH)))))));
    qden = (XO (XO (XO (XO (XO (XO (XO (XI (XO XH))))))))) } :: ({ qnum =
    (Zpos (XI (XI (XI (XI (XI (XI XH))))))); qden = (XO (XO (XO (XO (XO (XO
    (XO (XI (XO XH))))))))) } :: ({ qnum = (Zpos (XI (XI (XO (XI (XO (XO (XO
    XH)))))))); qden = (XO (XO (XO (XO (XO (XO (XO (XO (XI (XO
    XH)))))))))) } :: ({ qnum = (Zpos (XI (XI (XI (XO (XI (XI (XI XH))))))));
    qden = (XO (XO (XO (XO (XO (XO (XO (XO (XI (XO
    XH)))))))))) } :: [])))))) :: (({ qnum = (Zpos (XI (XO (XI (XO (XI (XO
    (XI (XO (XI (XI (XO (XO XH))))))))))))); qden = (XO (XO (XO (XO (XO (XO
    (XO (XO (XO (XO (XI (XI (XO (XI XH)))))))))))))) } :: ({ qnum = (Zpos (XI
    (XO (XO (XO (XI XH)))))); qden = (XO (XO (XO (XO (XO (XO (XO (XO (XO (XI
    (XI (XI XH)))))))))))) } :: ({ qnum = (Zpos (XI (XI (XI (XI (XO (XO (XI
    (XO (XO (XO (XO (XI XH))))))))))))); qden = (XO (XO (XO (XO (XO (XO (XO
    (XO (XO (XO (XI (XI (XI XH))))))))))))) } :: ({ qnum = (Zneg (XI (XO (XO
    (XO (XI (XI (XI (XO (XO (XO (XO (XI XH))))))))))))); qden = (XO (XO (XO
    (XO (XO (XO (XO (XO (XI (XI (XI (XO (XO (XO (XO
    XH))))))))))))))) } :: ({ qnum = (Zpos (XI (XI (XI (XI (XO (XO (XI (XO
    (XO (XO (XO (XI XH))))))))))))); qden = (XO (XO (XO (XO (XO (XO (XO (XO
    (XO (XO (XI (XI (XI XH))))))))))))) } :: ({ qnum = (Zpos (XI (XO (XO (XO
    (XI XH)))))); qden = (XO (XO (XO (XO (XO (XO (XO (XO (XO (XI (XI (XI
    XH)))))))))))) } :: ({ qnum = (Zpos (XI (XO (XI (XO (XI (XO (XI (XO (XI
    (XI (XO (XO XH))))))))))))); qden = (XO (XO (XO (XO (XO (XO (XO (XO (XO
    (XO (XI (XI (XO (XI XH)))))))))))))) } :: []))))))) :: (({ qnum = (Zpos
    (XI (XI (XO (XI (XO (XO (XI (XI (XO (XI (XO (XO (XO (XO (XO (XI (XO (XO
    XH))))))))))))))))))); qden = (XO (XO (XO (XO (XO (XO (XO (XO (XO (XO (XO
    (XI (XO (XO (XO (XI (XI (XO (XI (XI XH)))))))))))))))))))) } :: ({ qnum =
    (Zpos (XI (XO (XO (XO (XO (XI (XO (XI (XO (XI (XI (XO (XI (XO (XO (XO
    XH))))))))))))))))); qden = (XO (XO (XO (XO (XO (XO (XO (XO (XO (XO (XO
    (XI (XO (XO (XO (XI (XI (XO (XI (XI XH)))))))))))))))))))) } :: ({ qnum =
    (Zpos (XI (XO (XO (XO (XO (XO (XI (XO (XO (XO (XI (XO (XO (XO
    XH))))))))))))))); qden = (XO (XO (XO (XO (XO (XO (XO (XO (XO (XO (XO (XI
    (XI (XO (XO (XO XH)))))))))))))))) } :: ({ qnum = (Zpos (XI (XO (XO (XI
    (XI (XI (XO (XI (XI (XI (XI (XO (XI (XI (XI (XI XH)))))))))))))))));
    qden = (XO (XO (XO (XO (XO (XO (XO (XO (XO (XO (XO (XI (XO (XO (XO (XI
    (XI (XO (XI (XI XH)))))))))))))))))))) } :: ({ qnum = (Zpos (XI (XO (XO
    (XI (XI (XI (XO (XI (XI (XI (XI (XO (XI (XI (XI (XI XH)))))))))))))))));
    qden = (XO (XO (XO (XO (XO (XO (XO (XO (XO (XO (XO (XI (XO (XO (XO (XI
    (XI (XO (XI (XI XH)))))))))))))))))))) } :: ({ qnum = (Zpos (XI (XO (XO
    (XO (XO (XO (XI (XO (XO (XO (XI (XO (XO (XO XH))))))))))))))); qden = (XO
    (XO (XO (XO (XO (XO (XO (XO (XO (XO (XO (XI (XI (XO (XO (XO
    XH)))))))))))))))) } :: ({ qnum = (Zpos (XI (XO (XO (XO (XO (XI (XO (XI
    (XO (XI (XI (XO (XI (XO (XO (XO XH))))))))))))))))); qden = (XO (XO (XO
    (XO (XO (XO (XO (XO (XO (XO (XO (XI (XO (XO (XO (XI (XI (XO (XI (XI
    XH)))))))))))))))))))) } :: ({ qnum = (Zpos (XI (XI (XO (XI (XO (XO (XI
    (XI (XO (XI (XO (XO (XO (XO (XO (XI (XO (XO XH))))))))))))))))))); qden =
    (XO (XO (XO (XO (XO (XO (XO (XO (XO (XO (XO (XI (XO (XO (XO (XI (XI (XO
    (XI (XI XH)))))))))))))))))))) } :: [])))))))) :: (({ qnum = (Zpos (XI
    (XO (XI (XI (XI (XO (XI (XI (XO (XI (XO (XO (XI (XI (XO (XI (XO (XO (XI
    XH)))))))))))))))))))); qden = (XO (XO (XO (XO (XO (XO (XO (XO (XO (XO
    (XO (XO (XO (XO (XO (XI (XI (XI (XI (XO (XI (XO
    XH)))))))))))))))))))))) } :: ({ qnum = (Zneg (XI (XO (XO (XI (XI (XO (XI
    (XO (XI (XI (XI (XI (XI (XI XH))))))))))))))); qden = (XO (XO (XO (XO (XO
    (XO (XO (XO (XO (XO (XO (XO (XI (XI (XI (XI (XO (XI (XO
    XH))))))))))))))))))) } :: ({ qnum = (Zpos (XI (XI (XO (XI (XI (XO (XO
    (XO (XI (XI (XO (XO (XI (XO (XO (XO (XI (XI (XO XH))))))))))))))))))));
    qden = (XO (XO (XO (XO (XO (XO (XO (XO (XO (XO (XO (XO (XO (XI (XI (XI
    (XI (XO (XI (XO XH)))))))))))))))))))) } :: ({ qnum = (Zneg (XI (XI (XI
    (XI (XO (XO (XI (XI (XI (XI (XI (XO (XO (XI (XO (XO (XO (XI
    XH))))))))))))))))))); qden = (XO (XO (XO (XO (XO (XO (XO (XO (XO (XO (XO
    (XO (XI (XI (XI (XI (XO (XI (XO XH))))))))))))))))))) } :: ({ qnum =
    (Zpos (XI (XI (XO (XI (XO (XO (XI (XI (XO (XI (XI (XI (XI (XI (XI (XI (XI
    (XI XH))))))))))))))))))); qden = (XO (XO (XO (XO (XO (XO (XO (XO (XO (XO
    (XO (XO (XO (XO (XI (XI (XO (XO (XO XH))))))))))))))))))) } :: ({ qnum =
    (Zneg (XI (XI (XI (XI (XO (XO (XI (XI (XI (XI (XI (XO (XO (XI (XO (XO (XO
    (XI XH))))))))))))))))))); qden = (XO (XO (XO (XO (XO (XO (XO (XO (XO (XO
    (XO (XO (XI (XI (XI (XI (XO (XI (XO XH))))))))))))))))))) } :: ({ qnum =
    (Zpos (XI (XI (XO (XI (XI (XO (XO (XO (XI (XI (XO (XO (XI (XO (XO (XO (XI
    (XI (XO XH)))))))))))))))))))); qden = (XO (XO (XO (XO (XO (XO (XO (XO
    (XO (XO (XO (XO (XO (XI (XI (XI (XI (XO (XI (XO
    XH)))))))))))))))))))) } :: ({ qnum = (Zneg (XI (XO (XO (XI (XI (XO (XI
    (XO (XI (XI (XI (XI (XI (XI XH))))))))))))))); qden = (XO (XO (XO (XO (XO
    (XO (XO (XO (XO (XO (XO (XO (XI (XI (XI (XI (XO (XI (XO
    XH))))))))))))))))))) } :: ({ qnum = (Zpos (XI (XO (XI (XI (XI (XO (XI
    (XI (XO (XI (XO (XO (XI (XI (XO (XI (XO (XO (XI XH))))))))))))))))))));
    qden = (XO (XO (XO (XO (XO (XO (XO (XO (XO (XO (XO (XO (XO (XO (XO (XI
    (XI (XI (XI (XO (XI (XO
    XH)))))))))))))))))))))) } :: []))))))))) :: (({ qnum = (Zpos (XI (XI (XO
    (XO (XO (XI (XI (XO (XI (XI (XO (XI (XI (XO (XI (XO (XO (XI (XO
    XH)))))))))))))))))))); qden = (XO (XO (XO (XO (XO (XO (XO (XO (XO (XO
    (XO (XO (XO (XO (XO (XO (XI (XO (XO (XO (XI (XO
    XH)))))))))))))))))))))) } :: ({ qnum = (Zneg (XI (XI (XO (XO (XI (XO (XI
    (XI (XO (XO (XI (XO (XO (XO (XO (XI (XI (XI XH))))))))))))))))))); qden =
    (XO (XO (XO (XO (XO (XO (XO (XO (XO (XO (XO (XO (XO (XO (XO (XO (XI (XI
    (XI (XO (XI (XI (XO (XO (XO XH))))))))))))))))))))))))) } :: ({ qnum =
    (Zpos (XI (XO (XO (XO (XO (XI (XI (XO (XO (XI (XI (XI (XO (XO (XI (XI (XO
    (XI (XI (XI (XO XH)))))))))))))))))))))); qden = (XO (XO (XO (XO (XO (XO
    (XO (XO (XO (XO (XO (XO (XO (XO (XI (XI (XI (XO (XI (XI (XO (XO (XO
    XH))))))))))))))))))))))) } :: ({ qnum = (Zneg (XI (XI (XO (XI (XO (XI
    (XO (XO (XI (XI (XI (XI (XO (XI (XI (XI (XI (XI (XI (XO
    XH))))))))))))))))))))); qden = (XO (XO (XO (XO (XO (XO (XO (XO (XO (XO
    (XO (XO (XO (XO (XI (XI (XI (XO (XI (XI (XO (XO (XO
    XH))))))))))))))))))))))) } :: ({ qnum = (Zpos (XI (XI (XO (XO (XO (XI
    (XO (XO (XO (XO (XI (XO (XO (XO (XO (XI (XI (XI (XI (XI (XI
    XH)))))))))))))))))))))); qden = (XO (XO (XO (XO (XO (XO (XO (XO (XO (XO
    (XO (XO (XO (XO (XO (XI (XI (XI (XO (XI (XI (XO (XO (XO
    XH)))))))))))))))))))))))) } :: ({ qnum = (Zpos (XI (XI (XO (XO (XO (XI
    (XO (XO (XO (XO (XI (XO (XO (XO (XO (XI (XI (XI (XI (XI (XI
    XH)))))))))))))))))))))); qden = (XO (XO (XO (XO (XO (XO (XO (XO (XO (XO
    (XO (XO (XO (XO (XO (XI (XI (XI (XO (XI (XI (XO (XO (XO
    XH)))))))))))))))))))))))) } :: ({ qnum = (Zneg (XI (XI (XO (XI (XO (XI
    (XO (XO (XI (XI (XI (XI (XO (XI (XI (XI (XI (XI (XI (XO
    XH))))))))))))))))))))); qden = (XO (XO (XO (XO (XO (XO (XO (XO (XO (XO
    (XO (XO (XO (XO (XI (XI (XI (XO (XI (XI (XO (XO (XO
    XH))))))))))))))))))))))) } :: ({ qnum = (Zpos (XI (XO (XO (XO (XO (XI
    (XI (XO (XO (XI (XI (XI (XO (XO (XI (XI (XO (XI (XI (XI (XO
    XH)))))))))))))))))))))); qden = (XO (XO (XO (XO (XO (XO (XO (XO (XO (XO
    (XO (XO (XO (XO (XI (XI (XI (XO (XI (XI (XO (XO (XO
    XH))))))))))))))))))))))) } :: ({ qnum = (Zneg (XI (XI (XO (XO (XI (XO
    (XI (XI (XO (XO (XI (XO (XO (XO (XO (XI (XI (XI XH)))))))))))))))))));
    qden = (XO (XO (XO (XO (XO (XO (XO (XO (XO (XO (XO (XO (XO (XO (XO (XO
    (XI (XI (XI (XO (XI (XI (XO (XO (XO
    XH))))))))))))))))))))))))) } :: ({ qnum = (Zpos (XI (XI (XO (XO (XO (XI
    (XI (XO (XI (XI (XO (XI (XI (XO (XI (XO (XO (XI (XO
    XH)))))))))))))))))))); qden = (XO (XO (XO (XO (XO (XO (XO (XO (XO (XO
    (XO (XO (XO (XO (XO (XO (XI (XO (XO (XO (XI (XO
    XH)))))))))))))))))))))) } :: [])))))))))) :: (({ qnum = (Zpos (XI (XO
    (XO (XI (XO (XI (XO (XO (XI (XO (XO (XO (XO (XI (XI (XO (XI (XO (XO (XO
    (XI (XO (XI (XI (XI (XO (XO (XO (XI (XO
    XH))))))))))))))))))))))))))))))); qden = (XO (XO (XO (XO (XO (XO (XO (XO
    (XO (XO (XO (XO (XO (XO (XO (XO (XO (XO (XI (XO (XI (XI (XI (XO (XO (XO
    (XO (XI (XI (XO (XO (XI (XO
    XH))))))))))))))))))))))))))))))))) } :: ({ qnum = (Zneg (XI (XO (XO (XO
    (XI (XI (XO (XO (XO (XO (XI (XO (XI (XO (XI (XI (XO (XI (XI (XI (XI (XI
    (XO (XI (XI (XI (XO (XI XH))))))))))))))))))))))))))))); qden = (XO (XO
    (XO (XO (XO (XO (XO (XO (XO (XO (XO (XO (XO (XO (XO (XO (XO (XI (XO (XI
    (XI (XI (XO (XO (XO (XO (XI (XI (XO (XO (XI (XO
    XH)))))))))))))))))))))))))))))))) } :: ({ qnum = (Zpos (XI (XI (XI (XO
    (XO (XI (XO (XO (XI (XI (XI (XO (XO (XO (XI (XO (XI (XO (XO (XI (XO (XO
    (XI (XI (XO (XO (XI (XI (XO (XO (XO XH))))))))))))))))))))))))))))))));
    qden = (XO (XO (XO (XO (XO (XO (XO (XO (XO (XO (XO (XO (XO (XO (XO (XO
    (XO (XO (XI (XI (XI (XI (XI (XO (XI (XO (XI (XI (XI (XO (XI
    XH))))))))))))))))))))))))))))))) } :: ({ qnum = (Zneg (XI (XO (XO (XO
    (XO (XI (XO (XO (XI (XO (XO (XI (XI (XI (XI (XI (XO (XO (XO (XO (XI (XO
    (XI (XO (XO (XI (XI (XI XH))))))))))))))))))))))))))))); qden = (XO (XO
    (XO (XO (XO (XO (XO (XO (XO (XO (XO (XO (XO (XO (XO (XI (XI (XI (XI (XI
    (XO (XI (XO (XI (XI (XI (XO (XI
    XH)))))))))))))))))))))))))))) } :: ({ qnum = (Zpos (XI (XI (XO (XO (XO
    (XI (XO (XI (XI (XI (XO (XI (XO (XO (XO (XO (XO (XI (XO (XI (XI (XO (XO
    (XO (XO (XO (XO (XI XH))))))))))))))))))))))))))))); qden = (XO (XO (XO
    (XO (XO (XO (XO (XO (XO (XO (XO (XO (XO (XO (XO (XO (XO (XI (XI (XI (XO
    (XO (XI (XO (XO (XO (XI XH))))))))))))))))))))))))))) } :: ({ qnum =
    (Zneg (XI (XO (XO (XO (XO (XO (XI (XO (XI (XO (XO (XO (XI (XI (XI (XO (XI
    (XI (XI (XI (XO (XO (XO (XO (XI (XI (XO (XO (XI (XI
    XH))))))))))))))))))))))))))))))); qden = (XO (XO (XO (XO (XO (XO (XO (XO
    (XO (XO (XO (XO (XO (XO (XO (XO (XI (XI (XI (XI (XI (XO (XI (XO (XI (XI
    (XI (XO (XI XH))))))))))))))))))))))))))))) } :: ({ qnum = (Zpos (XI (XI
    (XO (XO (XO (XI (XO (XI (XI (XI (XO (XI (XO (XO (XO (XO (XO (XI (XO (XI
    (XI (XO (XO (XO (XO (XO (XO (XI XH))))))))))))))))))))))))))))); qden =
    (XO (XO (XO (XO (XO (XO (XO (XO (XO (XO (XO (XO (XO (XO (XO (XO (XO (XI
    (XI (XI (XO (XO (XI (XO (XO (XO (XI
    XH))))))))))))))))))))))))))) } :: ({ qnum = (Zneg (XI (XO (XO (XO (XO
    (XI (XO (XO (XI (XO (XO (XI (XI (XI (XI (XI (XO (XO (XO (XO (XI (XO (XI
    (XO (XO (XI (XI (XI XH))))))))))))))))))))))))))))); qden = (XO (XO (XO
    (XO (XO (XO (XO (XO (XO (XO (XO (XO (XO (XO (XO (XI (XI (XI (XI (XI (XO
    (XI (XO (XI (XI (XI (XO (XI XH)))))))))))))))))))))))))))) } :: ({ qnum =
    (Zpos (XI (XI (XI (XO (XO (XI (XO (XO (XI (XI (XI (XO (XO (XO (XI (XO (XI
    (XO (XO (XI (XO (XO (XI (XI (XO (XO (XI (XI (XO (XO (XO
    XH)))))))))))))))))))))))))))))))); qden = (XO (XO (XO (XO (XO (XO (XO
    (XO (XO (XO (XO (XO (XO (XO (XO (XO (XO (XO (XI (XI (XI (XI (XI (XO (XI
    (XO (XI (XI (XI (XO (XI XH))))))))))))))))))))))))))))))) } :: ({ qnum =
    (Zneg (XI (XO (XO (XO (XI (XI (XO (XO (XO (XO (XI (XO (XI (XO (XI (XI (XO
    (XI (XI (XI (XI (XI (XO (XI (XI (XI (XO (XI
    XH))))))))))))))))))))))))))))); qden = (XO (XO (XO (XO (XO (XO (XO (XO
    (XO (XO (XO (XO (XO (XO (XO (XO (XO (XI (XO (XI (XI (XI (XO (XO (XO (XO
    (XI (XI (XO (XO (XI (XO XH)))))))))))))))))))))))))))))))) } :: ({ qnum =
    (Zpos (XI (XO (XO (XI (XO (XI (XO (XO (XI (XO (XO (XO (XO (XI (XI (XO (XI
    (XO (XO (XO (XI (XO (XI (XI (XI (XO (XO (XO (XI (XO
    XH))))))))))))))))))))))))))))))); qden = (XO (XO (XO (XO (XO (XO (XO (XO
    (XO (XO (XO (XO (XO (XO (XO (XO (XO (XO (XI (XO (XI (XI (XI (XO (XO (XO
    (XO (XI (XI (XO (XO (XI (XO
    XH))))))))))))))))))))))))))))))))) } :: []))))))))))) :: (({ qnum =
    (Zpos (XI (XI (XI (XI (XI (XI (XO (XI (XO (XO (XO (XI (XO (XO (XO (XO (XI
    (XI (XI (XI (XI (XI (XI (XI (XI (XI (XO (XO
    XH))))))))))))))))))))))))))))); qden = (XO (XO (XO (XO (XO (XO (XO (XO
    (XO (XO (XO (XO (XO (XO (XO (XO (XO (XO (XO (XI (XI (XI (XI (XO (XO (XO
    (XI (XO (XI (XI (XO XH))))))))))))))))))))))))))))))) } :: ({ qnum =
    (Zneg (XI (XI (XI (XI (XO (XO (XI (XO (XO (XO (XO (XI (XO (XI (XI (XI (XO
    (XI (XI (XI (XO (XO (XI (XO (XI (XO (XO XH))))))))))))))))))))))))))));
    qden = (XO (XO (XO (XO (XO (XO (XO (XO (XO (XO (XO (XO (XO (XO (XO (XO
    (XO (XO (XO (XI (XI (XI (XI (XO (XO (XO (XI (XO (XI (XI (XO
    XH))))))))))))))))))))))))))))))) } :: ({ qnum = (Zpos (XI (XO (XI (XO
    (XO (XO (XI (XO (XO (XI (XO (XI (XO (XO (XI (XI (XI (XO (XI (XI (XI (XI
    (XO (XO (XO (XO (XO (XO (XI (XO XH))))))))))))))))))))))))))))))); qden =
    (XO (XO (XO (XO (XO (XO (XO (XO (XO (XO (XO (XO (XO (XO (XO (XO (XO (XO
    (XO (XI (XI (XI (XI (XO (XO (XO (XI (XO (XI (XI (XO
    XH))))))))))))))))))))))))))))))) } :: ({ qnum = (Zneg (XI (XI (XO (XI
    (XI (XO (XI (XI (XO (XO (XI (XI (XO (XI (XO (XI (XI (XO (XO (XO (XO (XO
    (XO (XI (XO (XI XH))))))))))))))))))))))))))); qden = (XO (XO (XO (XO (XO
    (XO (XO (XO (XO (XO (XO (XO (XO (XO (XO (XO (XO (XO (XO (XI (XO (XO (XO
    (XO (XO (XO (XI XH))))))))))))))))))))))))))) } :: ({ qnum = (Zpos (XI
    (XI (XO (XO (XO (XI (XI (XO (XO (XI (XO (XI (XI (XO (XI (XO (XO (XI (XI
    (XI (XO (XO (XI (XO (XI (XI (XO (XO (XO (XO
    XH))))))))))))))))))))))))))))))); qden = (XO (XO (XO (XO (XO (XO (XO (XO
    (XO (XO (XO (XO (XO (XO (XO (XO (XO (XO (XI (XI (XI (XI (XO (XO (XO (XI
    (XO (XI (XI (XO XH)))))))))))))))))))))))))))))) } :: ({ qnum = (Zneg (XI
    (XO (XI (XI (XI (XI (XI (XO (XO (XO (XO (XI (XO (XO (XI (XI (XI (XO (XO
    (XO (XO (XO (XI (XO XH))))))))))))))))))))))))); qden = (XO (XO (XO (XO
    (XO (XO (XO (XO (XO (XO (XO (XO (XO (XO (XO (XO (XO (XO (XI (XO (XO (XO
    (XO (XO (XO (XI XH)))))))))))))))))))))))))) } :: ({ qnum = (Zneg (XI (XO
    (XI (XI (XI (XI (XI (XO (XO (XO (XO (XI (XO (XO (XI (XI (XI (XO (XO (XO
    (XO (XO (XI (XO XH))))))))))))))))))))))))); qden = (XO (XO (XO (XO (XO
    (XO (XO (XO (XO (XO (XO (XO (XO (XO (XO (XO (XO (XO (XI (XO (XO (XO (XO
    (XO (XO (XI XH)))))))))))))))))))))))))) } :: ({ qnum = (Zpos (XI (XI (XO
    (XO (XO (XI (XI (XO (XO (XI (XO (XI (XI (XO (XI (XO (XO (XI (XI (XI (XO
    (XO (XI (XO (XI (XI (XO (XO (XO (XO XH)))))))))))))))))))))))))))))));
    qden = (XO (XO (XO (XO (XO (XO (XO (XO (XO (XO (XO (XO (XO (XO (XO (XO
    (XO (XO (XI (XI (XI (XI (XO (XO (XO (XI (XO (XI (XI (XO
    XH)))))))))))))))))))))))))))))) } :: ({ qnum = (Zneg (XI (XI (XO (XI (XI
    (XO (XI (XI (XO (XO (XI (XI (XO (XI (XO (XI (XI (XO (XO (XO (XO (XO (XO
    (XI (XO (XI XH))))))))))))))))))))))))))); qden = (XO (XO (XO (XO (XO (XO
    (XO (XO (XO (XO (XO (XO (XO (XO (XO (XO (XO (XO (XO (XI (XO (XO (XO (XO
    (XO (XO (XI XH))))))))))))))))))))))))))) } :: ({ qnum = (Zpos (XI (XO
    (XI (XO (XO (XO (XI (XO (XO (XI (XO (XI (XO (XO (XI (XI (XI (XO (XI (XI
    (XI (XI (XO (XO (XO (XO (XO (XO (XI (XO
    XH))))))))))))))))))))))))))))))); qden = (XO (XO (XO (XO (XO (XO (XO (XO
    (XO (XO (XO (XO (XO (XO (XO (XO (XO (XO (XO (XI (XI (XI (XI (XO (XO (XO
    (XI (XO (XI (XI (XO XH))))))))))))))))))))))))))))))) } :: ({ qnum =
    (Zneg (XI (XI (XI (XI (XO (XO (XI (XO (XO (XO (XO (XI (XO (XI (XI (XI (XO
    (XI (XI (XI (XO (XO (XI (XO (XI (XO (XO XH))))))))))))))))))))))))))));
    qden = (XO (XO (XO (XO (XO (XO (XO (XO (XO (XO (XO (XO (XO (XO (XO (XO
    (XO (XO (XO (XI (XI (XI (XI (XO (XO (XO (XI (XO (XI (XI (XO
    XH))))))))))))))))))))))))))))))) } :: ({ qnum = (Zpos (XI (XI (XI (XI
    (XI (XI (XO (XI (XO (XO (XO (XI (XO (XO (XO (XO (XI (XI (XI (XI (XI (XI
    (XI (XI (XI (XI (XO (XO XH))))))))))))))))))))))))))))); qden = (XO (XO
    (XO (XO (XO (XO (XO (XO (XO (XO (XO (XO (XO (XO (XO (XO (XO (XO (XO (XI
    (XI (XI (XI (XO (XO (XO (XI (XO (XI (XI (XO
    XH))))))))))))))))))))))))))))))) } :: [])))))))))))) :: (({ qnum = (Zpos
    (XI (XO (XO (XI (XI (XO (XO (XO (XI (XO (XO (XI (XO (XI (XO (XO (XO (XO
    (XI (XO (XO (XI (XO (XO (XI (XO (XI (XO (XI (XO (XI (XI (XI (XO (XO (XI
    (XO (XI (XO (XO (XO (XO (XI (XO
    XH))))))))))))))))))))))))))))))))))))))))))))); qden = (XO (XO (XO (XO
    (XO (XO (XO (XO (XO (XO (XO (XO (XO (XO (XO (XO (XO (XO (XO (XO (XO (XO
    (XI (XI (XI (XO (XI (XO (XI (XI (XO (XO (XI (XO (XI (XI (XI (XO (XI (XO
    (XI (XI (XO (XI (XI (XI (XO
    XH))))))))))))))))))))))))))))))))))))))))))))))) } :: ({ qnum = (Zneg
    (XI (XO (XI (XO (XI (XI (XO (XI (XO (XO (XO (XI (XI (XO (XI (XO (XI (XI
    (XO (XO (XI (XI (XO (XI (XO (XI (XO (XI (XI (XI (XI (XI (XI (XO (XI (XO
    (XO (XO (XI (XI XH))))))))))))))))))))))))))))))))))))))))); qden = (XO
    (XO (XO (XO (XO (XO (XO (XO (XO (XO (XO (XO (XO (XO (XO (XO (XO (XO (XO
    (XO (XI (XO (XI (XI (XI (XO (XO (XI (XI (XO (XO (XO (XI (XO (XI (XI (XI
    (XO (XO (XI (XI (XI (XI
    XH))))))))))))))))))))))))))))))))))))))))))) } :: ({ qnum = (Zpos (XI
    (XI (XO (XO (XO (XO (XO (XO (XO (XI (XI (XO (XO (XI (XO (XI (XI (XI (XO
    (XO (XO (XI (XO (XO (XI (XO (XO (XO (XO (XI (XO (XI (XI (XO (XO (XI (XO
    (XO (XO (XI (XO (XO (XO (XI
    XH))))))))))))))))))))))))))))))))))))))))))))); qden = (XO (XO (XO (XO
    (XO (XO (XO (XO (XO (XO (XO (XO (XO (XO (XO (XO (XO (XO (XO (XO (XO (XI
    (XO (XI (XI (XI (XO (XO (XI (XI (XO (XO (XO (XI (XO (XI (XI (XI (XO (XO
    (XI (XI (XI (XI
    XH)))))))))))))))))))))))))))))))))))))))))))) } :: ({ qnum = (Zneg (XI
    (XI (XI (XO (XO (XO (XO (XI (XO (XI (XI (XO (XO (XO (XI (XO (XO (XI (XO
    (XI (XO (XI (XI (XO (XO (XI (XO (XO (XO (XI (XO (XO (XI (XI (XI (XI (XI
    (XO (XI (XI (XO (XO (XO (XO
    XH))))))))))))))))))))))))))))))))))))))))))))); qden = (XO (XO (XO (XO
    (XO (XO (XO (XO (XO (XO (XO (XO (XO (XO (XO (XO (XO (XO (XO (XO (XI (XI
    (XO (XI (XO (XI (XO (XO (XO (XO (XI (XO (XO (XI (XI (XI (XI (XO (XI (XO
    (XI (XO (XO XH))))))))))))))))))))))))))))))))))))))))))) } :: ({ qnum =
    (Zpos (XI (XO (XO (XO (XI (XI (XO (XO (XI (XI (XI (XO (XO (XO (XO (XO (XI
    (XI (XI (XO (XO (XI (XO (XI (XO (XO (XI (XI (XI (XI (XO (XO (XI (XI (XI
    (XO (XI (XI (XO (XO (XI (XO
    XH))))))))))))))))))))))))))))))))))))))))))); qden = (XO (XO (XO (XO (XO
    (XO (XO (XO (XO (XO (XO (XO (XO (XO (XO (XO (XO (XO (XO (XO (XO (XO (XI
    (XO (XO (XO (XI (XI (XO (XO (XI (XO (XI (XI (XO (XO (XO (XI (XI (XO
    XH)))))))))))))))))))))))))))))))))))))))) } :: ({ qnum = (Zneg (XI (XI
    (XI (XO (XO (XI (XI (XI (XI (XO (XI (XO (XO (XO (XO (XO (XI (XI (XI (XI
    (XI (XO (XO (XI (XI (XO (XI (XI (XI (XI (XO (XO (XO (XI (XI (XO (XO (XO
    (XO (XO (XO (XI (XI XH))))))))))))))))))))))))))))))))))))))))))));
    qden = (XO (XO (XO (XO (XO (XO (XO (XO (XO (XO (XO (XO (XO (XO (XO (XO
    (XO (XO (XO (XI (XI (XI (XI (XI (XO (XI (XI (XI (XO (XI (XO (XO (XO (XI
    (XO (XI (XI (XO (XO (XI (XO
    XH))))))))))))))))))))))))))))))))))))))))) } :: ({ qnum = (Zpos (XI (XI
    (XO (XO (XO (XO (XI (XI (XO (XI (XI (XO (XI (XI (XI (XI (XO (XO (XI (XI
    (XI (XO (XI (XI (XO (XI (XO (XI (XO (XO (XO (XO (XO (XO (XO (XO (XI (XO
    (XO (XO (XO (XI (XI XH))))))))))))))))))))))))))))))))))))))))))));
    qden = (XO (XO (XO (XO (XO (XO (XO (XO (XO (XO (XO (XO (XO (XO (XO (XO
    (XO (XO (XO (XO (XI (XI (XO (XI (XI (XI (XO (XO (XO (XO (XO (XO (XI (XI
    (XO (XI (XI (XI (XO (XO (XO
    XH))))))))))))))))))))))))))))))))))))))))) } :: ({ qnum = (Zneg (XI (XI
    (XI (XO (XO (XI (XI (XI (XI (XO (XI (XO (XO (XO (XO (XO (XI (XI (XI (XI
    (XI (XO (XO (XI (XI (XO (XI (XI (XI (XI (XO (XO (XO (XI (XI (XO (XO (XO
    (XO (XO (XO (XI (XI XH))))))))))))))))))))))))))))))))))))))))))));
    qden = (XO (XO (XO (XO (XO (XO (XO (XO (XO (XO (XO (XO (XO (XO (XO (XO
    (XO (XO (XO (XI (XI (XI (XI (XI (XO (XI (XI (XI (XO (XI (XO (XO (XO (XI
    (XO (XI (XI (XO (XO (XI (XO
    XH))))))))))))))))))))))))))))))))))))))))) } :: ({ qnum = (Zpos (XI (XO
    (XO (XO (XI (XI (XO (XO (XI (XI (XI (XO (XO (XO (XO (XO (XI (XI (XI (XO
    (XO (XI (XO (XI (XO (XO (XI (XI (XI (XI (XO (XO (XI (XI (XI (XO (XI (XI
    (XO (XO (XI (XO XH))))))))))))))))))))))))))))))))))))))))))); qden = (XO
    (XO (XO (XO (XO (XO (XO (XO (XO (XO (XO (XO (XO (XO (XO (XO (XO (XO (XO
    (XO (XO (XO (XI (XO (XO (XO (XI (XI (XO (XO (XI (XO (XI (XI (XO (XO (XO
    (XI (XI (XO XH)))))))))))))))))))))))))))))))))))))))) } :: ({ qnum =
    (Zneg (XI (XI (XI (XO (XO (XO (XO (XI (XO (XI (XI (XO (XO (XO (XI (XO (XO
    (XI (XO (XI (XO (XI (XI (XO (XO (XI (XO (XO (XO (XI (XO (XO (XI (XI (XI
    (XI (XI (XO (XI (XI (XO (XO (XO (XO
    XH))))))))))))))))))))))))))))))))))))))))))))); qden = (XO (XO (XO (XO
    (XO (XO (XO (XO (XO (XO (XO (XO (XO (XO (XO (XO (XO (XO (XO (XO (XI (XI
    (XO (XI (XO (XI (XO (XO (XO (XO (XI (XO (XO (XI (XI (XI (XI (XO (XI (XO
    (XI (XO (XO XH))))))))))))))))))))))))))))))))))))))))))) } :: ({ qnum =
    (Zpos (XI (XI (XO (XO (XO (XO (XO (XO (XO (XI (XI (XO (XO (XI (XO (XI (XI
    (XI (XO (XO (XO (XI (XO (XO (XI (XO (XO (XO (XO (XI (XO (XI (XI (XO (XO
    (XI (XO (XO (XO (XI (XO (XO (XO (XI
    XH))))))))))))))))))))))))))))))))))))))))))))); qden = (XO (XO (XO (XO
    (XO (XO (XO (XO (XO (XO (XO (XO (XO (XO (XO (XO (XO (XO (XO (XO (XO (XI
    (XO (XI (XI (XI (XO (XO (XI (XI (XO (XO (XO (XI (XO (XI (XI (XI (XO (XO
    (XI (XI (XI (XI
    XH)))))))))))))))))))))))))))))))))))))))))))) } :: ({ qnum = (Zneg (XI
    (XO (XI (XO (XI (XI (XO (XI (XO (XO (XO (XI (XI (XO (XI (XO (XI (XI (XO
    (XO (XI (XI (XO (XI (XO (XI (XO (XI (XI (XI (XI (XI (XI (XO (XI (XO (XO
    (XO (XI (XI XH))))))))))))))))))))))))))))))))))))))))); qden = (XO (XO
    (XO (XO (XO (XO (XO (XO (XO (XO (XO (XO (XO (XO (XO (XO (XO (XO (XO (XO
    (XI (XO (XI (XI (XI (XO (XO (XI (XI (XO (XO (XO (XI (XO (XI (XI (XI (XO
    (XO (XI (XI (XI (XI
    XH))))))))))))))))))))))))))))))))))))))))))) } :: ({ qnum = (Zpos (XI
    (XO (XO (XI (XI (XO (XO (XO (XI (XO (XO (XI (XO (XI (XO (XO (XO (XO (XI
    (XO (XO (XI (XO (XO (XI (XO (XI (XO (XI (XO (XI (XI (XI (XO (XO (XI (XO
    (XI (XO (XO (XO (XO (XI (XO
    XH))))))))))))))))))))))))))))))))))))))))))))); qden = (XO (XO (XO (XO
    (XO (XO (XO (XO (XO (XO (XO (XO (XO (XO (XO (XO (XO (XO (XO (XO (XO (XO
    (XI (XI (XI (XO (XI (XO (XI (XI (XO (XO (XI (XO (XI (XI (XI (XO (XI (XO
    (XI (XI (XO (XI (XI (XI (XO
    XH))))))))))))))))))))))))))))))))))))))))))))))) } :: []))))))))))))) :: (({ qnum =
    (Zpos (XI (XO (XI (XO (XO (XO (XI (XI (XO (XO (XI (XO (XI (XI (XI (XI (XI
    (XI (XO (XO (XO (XI (XI (XI (XI (XO (XI (XO (XI (XO (XI (XI (XI (XO (XI
    (XO (XO (XO (XI (XI (XI (XO (XO
    XH)))))))))))))))))))))))))))))))))))))))))))); qden = (XO (XO (XO (XO
    (XO (XO (XO (XO (XO (XO (XO (XO (XO (XO (XO (XO (XO (XO (XO (XO (XO (XO
    (XO (XI (XI (XO (XI (XI (XO (XI (XI (XI (XO (XI (XO (XI (XO (XI (XI (XO
    (XI (XI (XO (XO (XO (XI
    XH)))))))))))))))))))))))))))))))))))))))))))))) } :: ({ qnum = (Zneg (XI
    (XI (XI (XO (XO (XO (XO (XO (XO (XO (XI (XO (XI (XO (XI (XI (XI (XI (XO
    (XO (XO (XO (XO (XI (XI (XI (XO (XI (XI (XI (XI (XI (XI (XO (XI (XO (XI
    (XI (XO (XO (XO (XO (XO XH))))))))))))))))))))))))))))))))))))))))))));
    qden = (XO (XO (XO (XO (XO (XO (XO (XO (XO (XO (XO (XO (XO (XO (XO (XO
    (XO (XO (XO (XO (XO (XO (XO (XI (XI (XO (XI (XI (XO (XI (XI (XI (XO (XI
    (XO (XI (XO (XI (XI (XO (XI (XI (XO (XO (XO (XI
    XH)))))))))))))))))))))))))))))))))))))))))))))) } :: ({ qnum = (Zpos (XI
    (XI (XI (XO (XI (XO (XI (XO (XO (XO (XI (XI (XO (XO (XI (XO (XO (XO (XI
    (XO (XO (XI (XO (XO (XI (XO (XO (XO (XI (XI (XO (XI (XO (XO (XI (XO (XI
    (XI (XO (XO (XI XH)))))))))))))))))))))))))))))))))))))))))); qden = (XO
    (XO (XO (XO (XO (XO (XO (XO (XO (XO (XO (XO (XO (XO (XO (XO (XO (XO (XO
    (XO (XO (XO (XI (XI (XO (XO (XO (XO (XI (XI (XI (XI (XI (XO (XI (XO (XO
    (XO (XO (XI (XI (XO
    XH)))))))))))))))))))))))))))))))))))))))))) } :: ({ qnum = (Zneg (XI (XO
    (XO (XI (XI (XO (XI (XO (XI (XO (XO (XO (XI (XI (XO (XO (XI (XO (XO (XO
    (XI (XI (XI (XO (XI (XI (XO (XI (XO (XO (XI (XO (XI (XO (XI (XO (XI (XO
    (XI (XO (XI (XO (XI (XO (XI
    XH)))))))))))))))))))))))))))))))))))))))))))))); qden = (XO (XO (XO (XO
    (XO (XO (XO (XO (XO (XO (XO (XO (XO (XO (XO (XO (XO (XO (XO (XO (XO (XO
    (XI (XI (XO (XI (XI (XO (XI (XI (XI (XO (XI (XO (XI (XO (XI (XI (XO (XI
    (XI (XO (XO (XO (XI
    XH))))))))))))))))))))))))))))))))))))))))))))) } :: ({ qnum = (Zpos (XI
    (XI (XI (XO (XO (XI (XO (XO (XI (XO (XI (XI (XI (XI (XO (XO (XI (XI (XO
    (XI (XI (XI (XO (XO (XO (XO (XI (XI (XI (XI (XI (XI (XI (XO (XO (XI (XO
    (XO (XI (XO (XI (XI XH))))))))))))))))))))))))))))))))))))))))))); qden =
    (XO (XO (XO (XO (XO (XO (XO (XO (XO (XO (XO (XO (XO (XO (XO (XO (XO (XO
    (XO (XO (XO (XO (XO (XI (XI (XO (XO (XI (XO (XO (XO (XO (XO (XI (XO (XI
    (XI (XI (XI (XI (XI
    XH))))))))))))))))))))))))))))))))))))))))) } :: ({ qnum = (Zneg (XI (XO
    (XI (XO (XO (XO (XO (XO (XI (XI (XI (XO (XI (XI (XO (XO (XO (XI (XO (XO
    (XI (XI (XO (XI (XO (XI (XO (XO (XI (XI (XO (XO (XI (XI (XO (XO (XI (XI
    (XI (XO (XO (XI (XO (XO XH)))))))))))))))))))))))))))))))))))))))))))));
    qden = (XO (XO (XO (XO (XO (XO (XO (XO (XO (XO (XO (XO (XO (XO (XO (XO
    (XO (XO (XO (XO (XO (XO (XO (XI (XI (XO (XO (XO (XO (XI (XI (XI (XI (XI
    (XO (XI (XO (XO (XO (XO (XI (XI (XO
    XH))))))))))))))))))))))))))))))))))))))))))) } :: ({ qnum = (Zpos (XI
    (XI (XI (XI (XO (XI (XO (XO (XO (XI (XO (XO (XI (XO (XI (XO (XI (XO (XO
    (XI (XI (XO (XO (XO (XI (XI (XO (XO (XI (XO (XO (XI (XO (XI (XI (XI (XI
    (XI (XO (XI (XO (XI XH))))))))))))))))))))))))))))))))))))))))))); qden =
    (XO (XO (XO (XO (XO (XO (XO (XO (XO (XO (XO (XO (XO (XO (XO (XO (XO (XO
    (XO (XO (XO (XI (XO (XO (XI (XO (XO (XI (XO (XI (XI (XI (XO (XO (XO (XI
    (XO (XO (XI (XO (XO (XO (XO
    XH))))))))))))))))))))))))))))))))))))))))))) } :: ({ qnum = (Zpos (XI
    (XI (XI (XI (XO (XI (XO (XO (XO (XI (XO (XO (XI (XO (XI (XO (XI (XO (XO
    (XI (XI (XO (XO (XO (XI (XI (XO (XO (XI (XO (XO (XI (XO (XI (XI (XI (XI
    (XI (XO (XI (XO (XI XH))))))))))))))))))))))))))))))))))))))))))); qden =
    (XO (XO (XO (XO (XO (XO (XO (XO (XO (XO (XO (XO (XO (XO (XO (XO (XO (XO
    (XO (XO (XO (XI (XO (XO (XI (XO (XO (XI (XO (XI (XI (XI (XO (XO (XO (XI
    (XO (XO (XI (XO (XO (XO (XO
    XH))))))))))))))))))))))))))))))))))))))))))) } :: ({ qnum = (Zneg (XI
    (XO (XI (XO (XO (XO (XO (XO (XI (XI (XI (XO (XI (XI (XO (XO (XO (XI (XO
    (XO (XI (XI (XO (XI (XO (XI (XO (XO (XI (XI (XO (XO (XI (XI (XO (XO (XI
    (XI (XI (XO (XO (XI (XO (XO
    XH))))))))))))))))))))))))))))))))))))))))))))); qden = (XO (XO (XO (XO
    (XO (XO (XO (XO (XO (XO (XO (XO (XO (XO (XO (XO (XO (XO (XO (XO (XO (XO
    (XO (XI (XI (XO (XO (XO (XO (XI (XI (XI (XI (XI (XO (XI (XO (XO (XO (XO
    (XI (XI (XO XH))))))))))))))))))))))))))))))))))))))))))) } :: ({ qnum =
    (Zpos (XI (XI (XI (XO (XO (XI (XO (XO (XI (XO (XI (XI (XI (XI (XO (XO (XI
    (XI (XO (XI (XI (XI (XO (XO (XO (XO (XI (XI (XI (XI (XI (XI (XI (XO (XO
    (XI (XO (XO (XI (XO (XI (XI
    XH))))))))))))))))))))))))))))))))))))))))))); qden = (XO (XO (XO (XO (XO
    (XO (XO (XO (XO (XO (XO (XO (XO (XO (XO (XO (XO (XO (XO (XO (XO (XO (XO
    (XI (XI (XO (XO (XI (XO (XO (XO (XO (XO (XI (XO (XI (XI (XI (XI (XI (XI
    XH))))))))))))))))))))))))))))))))))))))))) } :: ({ qnum = (Zneg (XI (XO
    (XO (XI (XI (XO (XI (XO (XI (XO (XO (XO (XI (XI (XO (XO (XI (XO (XO (XO
    (XI (XI (XI (XO (XI (XI (XO (XI (XO (XO (XI (XO (XI (XO (XI (XO (XI (XO
    (XI (XO (XI (XO (XI (XO (XI
    XH)))))))))))))))))))))))))))))))))))))))))))))); qden = (XO (XO (XO (XO
    (XO (XO (XO (XO (XO (XO (XO (XO (XO (XO (XO (XO (XO (XO (XO (XO (XO (XO
    (XI (XI (XO (XI (XI (XO (XI (XI (XI (XO (XI (XO (XI (XO (XI (XI (XO (XI
    (XI (XO (XO (XO (XI
    XH))))))))))))))))))))))))))))))))))))))))))))) } :: ({ qnum = (Zpos (XI
    (XI (XI (XO (XI (XO (XI (XO (XO (XO (XI (XI (XO (XO (XI (XO (XO (XO (XI
    (XO (XO (XI (XO (XO (XI (XO (XO (XO (XI (XI (XO (XI (XO (XO (XI (XO (XI
    (XI (XO (XO (XI XH)))))))))))))))))))))))))))))))))))))))))); qden = (XO
    (XO (XO (XO (XO (XO (XO (XO (XO (XO (XO (XO (XO (XO (XO (XO (XO (XO (XO
    (XO (XO (XO (XI (XI (XO (XO (XO (XO (XI (XI (XI (XI (XI (XO (XI (XO (XO
    (XO (XO (XI (XI (XO
    XH)))))))))))))))))))))))))))))))))))))))))) } :: ({ qnum = (Zneg (XI (XI
    (XI (XO (XO (XO (XO (XO (XO (XO (XI (XO (XI (XO (XI (XI (XI (XI (XO (XO
    (XO (XO (XO (XI (XI (XI (XO (XI (XI (XI (XI (XI (XI (XO (XI (XO (XI (XI
    (XO (XO (XO (XO (XO XH))))))))))))))))))))))))))))))))))))))))))));
    qden = (XO (XO (XO (XO (XO (XO (XO (XO (XO (XO (XO (XO (XO (XO (XO (XO
    (XO (XO (XO (XO (XO (XO (XO (XI (XI (XO (XI (XI (XO (XI (XI (XI (XO (XI
    (XO (XI (XO (XI (XI (XO (XI (XI (XO (XO (XO (XI
    XH)))))))))))))))))))))))))))))))))))))))))))))) } :: ({ qnum = (Zpos (XI
    (XO (XI (XO (XO (XO (XI (XI (XO (XO (XI (XO (XI (XI (XI (XI (XI (XI (XO
    (XO (XO (XI (XI (XI (XI (XO (XI (XO (XI (XO (XI (XI (XI (XO (XI (XO (XO
    (XO (XI (XI (XI (XO (XO XH))))))))))))))))))))))))))))))))))))))))))));
    qden = (XO (XO (XO (XO (XO (XO (XO (XO (XO (XO (XO (XO (XO (XO (XO (XO
    (XO (XO (XO (XO (XO (XO (XO (XI (XI (XO (XI (XI (XO (XI (XI (XI (XO (XI
    (XO (XI (XO (XI (XI (XO (XI (XI (XO (XO (XO (XI
    XH)))))))))))))))))))))))))))))))))))))))))))))) } :: [])))))))))))))) :: (({ qnum =
    (Zpos (XI (XO (XO (XI (XI (XO (XI (XI (XI (XI (XI (XI (XO (XO (XI (XO (XO
    (XO (XO (XI (XI (XI (XO (XI (XI (XO (XO (XO (XO (XO (XI (XO (XI (XO
    XH))))))))))))))))))))))))))))))))))); qden = (XO (XO (XO (XO (XO (XO (XO
    (XO (XO (XO (XO (XO (XO (XO (XO (XO (XO (XO (XO (XO (XO (XO (XO (XO (XO
    (XI (XI (XI (XI (XI (XO (XI (XO (XI (XI (XO (XI
    XH))))))))))))))))))))))))))))))))))))) } :: ({ qnum = (Zneg (XI (XI (XO
    (XO (XO (XO (XI (XO (XO (XI (XO (XI (XI (XO (XI (XO (XO (XO (XI (XO (XI
    (XO (XO (XI (XI (XI (XI (XI (XI (XO (XO (XO (XO (XI (XO (XO (XO
    XH)))))))))))))))))))))))))))))))))))))); qden = (XO (XO (XO (XO (XO (XO
    (XO (XO (XO (XO (XO (XO (XO (XO (XO (XO (XO (XO (XO (XO (XO (XO (XO (XO
    (XI (XI (XI (XO (XI (XO (XI (XO (XO (XI (XI (XO (XI (XI (XI
    XH))))))))))))))))))))))))))))))))))))))) } :: ({ qnum = (Zpos (XI (XI
    (XO (XO (XO (XO (XI (XO (XI (XI (XI (XI (XI (XI (XI (XI (XO (XI (XI (XI
    (XI (XI (XI (XI (XO (XO (XI (XO (XO (XI (XO (XO (XO (XO (XI (XO (XI
    XH)))))))))))))))))))))))))))))))))))))); qden = (XO (XO (XO (XO (XO (XO
    (XO (XO (XO (XO (XO (XO (XO (XO (XO (XO (XO (XO (XO (XO (XO (XO (XO (XO
    (XO (XI (XI (XI (XI (XI (XO (XI (XO (XI (XI (XO (XI
    XH))))))))))))))))))))))))))))))))))))) } :: ({ qnum = (Zneg (XI (XI (XI
    (XI (XI (XO (XI (XO (XO (XI (XO (XO (XO (XI (XO (XO (XI (XO (XO (XI (XI
    (XI (XO (XO (XO (XI (XI (XI (XO (XI (XI (XI (XO (XO (XI (XO (XO
    XH)))))))))))))))))))))))))))))))))))))); qden = (XO (XO (XO (XO (XO (XO
    (XO (XO (XO (XO (XO (XO (XO (XO (XO (XO (XO (XO (XO (XO (XO (XO (XO (XI
    (XI (XI (XI (XI (XO (XI (XO (XI (XI (XO (XI
    XH))))))))))))))))))))))))))))))))))) } :: ({ qnum = (Zpos (XI (XO (XO
    (XI (XO (XI (XO (XO (XI (XO (XO (XO (XO (XO (XI (XI (XO (XO (XI (XI (XI
    (XO (XO (XO (XI (XI (XI (XO (XO (XI (XO (XO (XI (XO (XI (XI (XI (XO (XO
    (XI (XO (XO (XI XH)))))))))))))))))))))))))))))))))))))))))))); qden =
    (XO (XO (XO (XO (XO (XO (XO (XO (XO (XO (XO (XO (XO (XO (XO (XO (XO (XO
    (XO (XO (XO (XO (XO (XO (XO (XI (XI (XI (XO (XI (XO (XI (XO (XO (XI (XI
    (XO (XI (XI (XI XH)))))))))))))))))))))))))))))))))))))))) } :: ({ qnum =
    (Zneg (XI (XO (XI (XO (XO (XO (XI (XI (XI (XO (XI (XI (XO (XI (XI (XI (XO
    (XO (XI (XO (XO (XI (XO (XO (XI (XI (XO (XO (XO (XO (XO (XI (XI (XI (XI
    (XI (XI (XI (XO (XO XH))))))))))))))))))))))))))))))))))))))))); qden =
    (XO (XO (XO (XO (XO (XO (XO (XO (XO (XO (XO (XO (XO (XO (XO (XO (XO (XO
    (XO (XO (XO (XO (XO (XO (XI (XI (XI (XI (XI (XO (XI (XO (XI (XI (XO (XI
    XH)))))))))))))))))))))))))))))))))))) } :: ({ qnum = (Zpos (XI (XI (XO
    (XO (XO (XO (XI (XI (XO (XO (XO (XO (XO (XI (XI (XI (XI (XI (XI (XO (XO
    (XO (XO (XO (XI (XO (XO (XO (XO (XO (XO (XI (XI (XI (XO (XO (XI (XO (XO
    (XI (XI XH)))))))))))))))))))))))))))))))))))))))))); qden = (XO (XO (XO
    (XO (XO (XO (XO (XO (XO (XO (XO (XO (XO (XO (XO (XO (XO (XO (XO (XO (XO
    (XO (XO (XO (XO (XI (XI (XI (XI (XI (XO (XI (XO (XI (XI (XO (XI
    XH))))))))))))))))))))))))))))))))))))) } :: ({ qnum = (Zneg (XI (XI (XO
    (XI (XI (XO (XI (XI (XI (XI (XO (XO (XO (XO (XI (XO (XO (XI (XI (XO (XI
    (XO (XI (XI (XI (XI (XI (XI (XI (XI (XI (XO (XO (XI (XI (XI (XI (XI (XI
    (XO XH))))))))))))))))))))))))))))))))))))))))); qden = (XO (XO (XO (XO
    (XO (XO (XO (XO (XO (XO (XO (XO (XO (XO (XO (XO (XO (XO (XO (XO (XO (XO
    (XI (XO (XI (XI (XI (XO (XO (XO (XO (XI (XO (XO (XI (XO
    XH)))))))))))))))))))))))))))))))))))) } :: ({ qnum = (Zpos (XI (XI (XO
    (XO (XO (XO (XI (XI (XO (XO (XO (XO (XO (XI (XI (XI (XI (XI (XI (XO (XO
    (XO (XO (XO (XI (XO (XO (XO (XO (XO (XO (XI (XI (XI (XO (XO (XI (XO (XO
    (XI (XI XH)))))))))))))))))))))))))))))))))))))))))); qden = (XO (XO (XO
    (XO (XO (XO (XO (XO (XO (XO (XO (XO (XO (XO (XO (XO (XO (XO (XO (XO (XO
    (XO (XO (XO (XO (XI (XI (XI (XI (XI (XO (XI (XO (XI (XI (XO (XI
    XH))))))))))))))))))))))))))))))))))))) } :: ({ qnum = (Zneg (XI (XO (XI
    (XO (XO (XO (XI (XI (XI (XO (XI (XI (XO (XI (XI (XI (XO (XO (XI (XO (XO
    (XI (XO (XO (XI (XI (XO (XO (XO (XO (XO (XI (XI (XI (XI (XI (XI (XI (XO
    (XO XH))))))))))))))))))))))))))))))))))))))))); qden = (XO (XO (XO (XO
    (XO (XO (XO (XO (XO (XO (XO (XO (XO (XO (XO (XO (XO (XO (XO (XO (XO (XO
    (XO (XO (XI (XI (XI (XI (XI (XO (XI (XO (XI (XI (XO (XI
    XH)))))))))))))))))))))))))))))))))))) } :: ({ qnum = (Zpos (XI (XO (XO
    (XI (XO (XI (XO (XO (XI (XO (XO (XO (XO (XO (XI (XI (XO (XO (XI (XI (XI
    (XO (XO (XO (XI (XI (XI (XO (XO (XI (XO (XO (XI (XO (XI (XI (XI (XO (XO
    (XI (XO (XO (XI XH)))))))))))))))))))))))))))))))))))))))))))); qden =
    (XO (XO (XO (XO (XO (XO (XO (XO (XO (XO (XO (XO (XO (XO (XO (XO (XO (XO
    (XO (XO (XO (XO (XO (XO (XO (XI (XI (XI (XO (XI (XO (XI (XO (XO (XI (XI
    (XO (XI (XI (XI XH)))))))))))))))))))))))))))))))))))))))) } :: ({ qnum =
    (Zneg (XI (XI (XI (XI (XI (XO (XI (XO (XO (XI (XO (XO (XO (XI (XO (XO (XI
    (XO (XO (XI (XI (XI (XO (XO (XO (XI (XI (XI (XO (XI (XI (XI (XO (XO (XI
    (XO (XO XH)))))))))))))))))))))))))))))))))))))); qden = (XO (XO (XO (XO
    (XO (XO (XO (XO (XO (XO (XO (XO (XO (XO (XO (XO (XO (XO (XO (XO (XO (XO
    (XO (XI (XI (XI (XI (XI (XO (XI (XO (XI (XI (XO (XI
    XH))))))))))))))))))))))))))))))))))) } :: ({ qnum = (Zpos (XI (XI (XO
    (XO (XO (XO (XI (XO (XI (XI (XI (XI (XI (XI (XI (XI (XO (XI (XI (XI (XI
    (XI (XI (XI (XO (XO (XI (XO (XO (XI (XO (XO (XO (XO (XI (XO (XI
    XH)))))))))))))))))))))))))))))))))))))); qden = (XO (XO (XO (XO (XO (XO
    (XO (XO (XO (XO (XO (XO (XO (XO (XO (XO (XO (XO (XO (XO (XO (XO (XO (XO
    (XO (XI (XI (XI (XI (XI (XO (XI (XO (XI (XI (XO (XI
    XH))))))))))))))))))))))))))))))))))))) } :: ({ qnum = (Zneg (XI (XI (XO
    (XO (XO (XO (XI (XO (XO (XI (XO (XI (XI (XO (XI (XO (XO (XO (XI (XO (XI
    (XO (XO (XI (XI (XI (XI (XI (XI (XO (XO (XO (XO (XI (XO (XO (XO
    XH)))))))))))))))))))))))))))))))))))))); qden = (XO (XO (XO (XO (XO (XO
    (XO (XO (XO (XO (XO (XO (XO (XO (XO (XO (XO (XO (XO (XO (XO (XO (XO (XO
    (XI (XI (XI (XO (XI (XO (XI (XO (XO (XI (XI (XO (XI (XI (XI
    XH))))))))))))))))))))))))))))))))))))))) } :: ({ qnum = (Zpos (XI (XO
    (XO (XI (XI (XO (XI (XI (XI (XI (XI (XI (XO (XO (XI (XO (XO (XO (XO (XI
    (XI (XI (XO (XI (XI (XO (XO (XO (XO (XO (XI (XO (XI (XO
    XH))))))))))))))))))))))))))))))))))); qden = (XO (XO (XO (XO (XO (XO (XO
    (XO (XO (XO (XO (XO (XO (XO (XO (XO (XO (XO (XO (XO (XO (XO (XO (XO (XO
    (XI (XI (XI (XI (XI (XO (XI (XO (XI (XI (XO (XI
    XH))))))))))))))))))))))))))))))))))))) } :: []))))))))))))))) :: (({ qnum =
    (Zpos (XI (XI (XO (XO (XI (XO (XO (XI (XI (XO (XO (XI (XO (XO (XI (XO (XI
    (XO (XO (XI (XI (XI (XO (XO (XI (XI (XI (XO (XI (XI (XO (XI (XI (XI (XI
    (XI (XI (XO (XI (XI (XO (XI (XO (XO (XO (XO (XO (XI (XO (XO (XO (XI (XO
    XH)))))))))))))))))))))))))))))))))))))))))))))))))))))); qden = (XO (XO
    (XO (XO (XO (XO (XO (XO (XO (XO (XO (XO (XO (XO (XO (XO (XO (XO (XO (XO
    (XO (XO (XO (XO (XO (XO (XI (XO (XO (XO (XO (XO (XI (XI (XO (XO (XI (XI
    (XO (XO (XI (XI (XO (XO (XI (XI (XO (XI (XO (XO (XO (XI (XO (XO (XI (XI
    XH)))))))))))))))))))))))))))))))))))))))))))))))))))))))) } :: ({ qnum =
    (Zneg (XI (XI (XI (XI (XI (XI (XO (XO (XI (XI (XO (XI (XI (XO (XI (XO (XI
    (XO (XO (XI (XO (XO (XO (XI (XI (XI (XO (XI (XO (XO (XO (XO (XI (XI (XI
    (XI (XO (XO (XI (XO (XO (XI (XO (XO (XO (XI (XO (XI (XI (XO (XO (XO (XI
    XH)))))))))))))))))))))))))))))))))))))))))))))))))))))); qden = (XO (XO
    (XO (XO (XO (XO (XO (XO (XO (XO (XO (XO (XO (XO (XO (XO (XO (XO (XO (XO
    (XO (XO (XO (XO (XO (XO (XI (XO (XO (XO (XO (XO (XI (XI (XO (XO (XI (XI
    (XO (XO (XI (XI (XO (XO (XI (XI (XO (XI (XO (XO (XO (XI (XO (XO (XI (XI
    XH)))))))))))))))))))))))))))))))))))))))))))))))))))))))) } :: ({ qnum =
    (Zpos (XI (XI (XI (XI (XO (XO (XI (XO (XO (XO (XI (XO (XI (XI (XO (XI (XO
    (XO (XI (XO (XI (XI (XO (XO (XO (XI (XI (XI (XI (XO (XI (XO (XI (XI (XI
    (XI (XI (XI (XO (XO (XI (XO (XI (XO (XI (XO (XO (XO (XI (XI (XI (XI (XO
    (XO (XI (XO XH)))))))))))))))))))))))))))))))))))))))))))))))))))))))));
    qden = (XO (XO (XO (XO (XO (XO (XO (XO (XO (XO (XO (XO (XO (XO (XO (XO
    (XO (XO (XO (XO (XO (XO (XO (XO (XO (XO (XI (XO (XO (XO (XO (XO (XI (XI
    (XO (XO (XI (XI (XO (XO (XI (XI (XO (XO (XI (XI (XO (XI (XO (XO (XO (XI
    (XO (XO (XI (XI
    XH)))))))))))))))))))))))))))))))))))))))))))))))))))))))) } :: ({ qnum =
    (Zneg (XI (XO (XO (XO (XI (XO (XI (XI (XO (XI (XI (XI (XO (XO (XO (XO (XO
    (XO (XO (XI (XO (XI (XO (XO (XI (XO (XI (XO (XI (XO (XO (XO (XI (XO (XO
    (XI (XO (XI (XO (XI (XI (XO (XO (XI (XI (XO (XO (XI (XI (XI (XI (XI (XO
    (XO (XO (XO XH)))))))))))))))))))))))))))))))))))))))))))))))))))))))));
    qden = (XO (XO (XO (XO (XO (XO (XO (XO (XO (XO (XO (XO (XO (XO (XO (XO
    (XO (XO (XO (XO (XO (XO (XO (XO (XO (XO (XI (XI (XO (XI (XO (XI (XI (XI
    (XO (XI (XI (XI (XO (XI (XI (XI (XO (XI (XI (XI (XO (XO (XO (XO (XO (XI
    (XI (XO (XO
    XH))))))))))))))))))))))))))))))))))))))))))))))))))))))) } :: ({ qnum =
    (Zpos (XI (XO (XO (XO (XI (XI (XI (XI (XO (XI (XO (XO (XO (XO (XO (XI (XI
    (XO (XI (XO (XI (XI (XI (XO (XO (XI (XI (XO (XI (XO (XO (XO (XI (XI (XI
    (XI (XO (XI (XI (XI (XO (XO (XO (XO (XI (XI (XO (XO (XO (XI (XO (XO (XI
    (XI (XI XH))))))))))))))))))))))))))))))))))))))))))))))))))))))));
    qden = (XO (XO (XO (XO (XO (XO (XO (XO (XO (XO (XO (XO (XO (XO (XO (XO
    (XO (XO (XO (XO (XO (XO (XO (XO (XO (XO (XI (XI (XI (XO (XI (XI (XI (XI
    (XO (XI (XO (XI (XO (XO (XO (XI (XI (XI (XI (XI (XO (XO (XI (XO (XO (XO
    (XO (XO
    XH)))))))))))))))))))))))))))))))))))))))))))))))))))))) } :: ({ qnum =
    (Zneg (XI (XI (XO (XO (XO (XI (XO (XO (XO (XI (XI (XO (XI (XI (XO (XO (XO
    (XI (XO (XO (XI (XO (XI (XI (XO (XO (XO (XO (XI (XO (XO (XI (XI (XO (XO
    (XO (XI (XO (XO (XO (XI (XO (XI (XI (XI (XO (XI (XO (XO (XO (XO (XO (XI
    (XO (XO (XO (XI (XO (XO
    XH)))))))))))))))))))))))))))))))))))))))))))))))))))))))))))); qden =
    (XO (XO (XO (XO (XO (XO (XO (XO (XO (XO (XO (XO (XO (XO (XO (XO (XO (XO
    (XO (XO (XO (XO (XO (XO (XO (XO (XI (XO (XO (XO (XO (XO (XI (XI (XO (XO
    (XI (XI (XO (XO (XI (XI (XO (XO (XI (XI (XO (XI (XO (XO (XO (XI (XO (XO
    (XI (XI
    XH)))))))))))))))))))))))))))))))))))))))))))))))))))))))) } :: ({ qnum =
    (Zpos (XI (XI (XO (XO (XI (XO (XI (XI (XO (XI (XO (XO (XO (XO (XI (XI (XO
    (XI (XO (XI (XO (XO (XO (XI (XO (XO (XO (XO (XI (XI (XI (XO (XO (XO (XO
    (XO (XO (XI (XO (XI (XI (XI (XO (XO (XO (XO (XO (XO (XO (XI (XO (XO (XI
    (XI (XO (XI (XO (XO (XO
    XH)))))))))))))))))))))))))))))))))))))))))))))))))))))))))))); qden =
    (XO (XO (XO (XO (XO (XO (XO (XO (XO (XO (XO (XO (XO (XO (XO (XO (XO (XO
    (XO (XO (XO (XO (XO (XO (XO (XO (XI (XO (XO (XO (XO (XO (XI (XI (XO (XO
    (XI (XI (XO (XO (XI (XI (XO (XO (XI (XI (XO (XI (XO (XO (XO (XI (XO (XO
    (XI (XI
    XH)))))))))))))))))))))))))))))))))))))))))))))))))))))))) } :: ({ qnum =
    (Zneg (XI (XO (XI (XI (XI (XI (XI (XO (XO (XI (XO (XO (XI (XI (XO (XO (XI
    (XO (XO (XI (XO (XO (XI (XI (XI (XO (XO (XO (XO (XO (XI (XO (XI (XO (XO
    (XO (XI (XI (XI (XO (XI (XO (XO (XI (XI (XO (XO (XI (XO (XI (XI (XO (XO
    (XI (XO (XO XH)))))))))))))))))))))))))))))))))))))))))))))))))))))))));
    qden = (XO (XO (XO (XO (XO (XO (XO (XO (XO (XO (XO (XO (XO (XO (XO (XO
    (XO (XO (XO (XO (XO (XO (XO (XO (XO (XO (XI (XI (XO (XI (XO (XI (XI (XI
    (XO (XI (XI (XI (XO (XI (XI (XI (XO (XI (XI (XI (XO (XO (XO (XO (XO (XI
    (XI (XO (XO
    XH))))))))))))))))))))))))))))))))))))))))))))))))))))))) } :: ({ qnum =
    (Zneg (XI (XO (XI (XI (XI (XI (XI (XO (XO (XI (XO (XO (XI (XI (XO (XO (XI
    (XO (XO (XI (XO (XO (XI (XI (XI (XO (XO (XO (XO (XO (XI (XO (XI (XO (XO
    (XO (XI (XI (XI (XO (XI (XO (XO (XI (XI (XO (XO (XI (XO (XI (XI (XO (XO
    (XI (XO (XO XH)))))))))))))))))))))))))))))))))))))))))))))))))))))))));
    qden = (XO (XO (XO (XO (XO (XO (XO (XO (XO (XO (XO (XO (XO (XO (XO (XO
    (XO (XO (XO (XO (XO (XO (XO (XO (XO (XO (XI (XI (XO (XI (XO (XI (XI (XI
    (XO (XI (XI (XI (XO (XI (XI (XI (XO (XI (XI (XI (XO (XO (XO (XO (XO (XI
    (XI (XO (XO
    XH))))))))))))))))))))))))))))))))))))))))))))))))))))))) } :: ({ qnum =
    (Zpos (XI (XI (XO (XO (XI (XO (XI (XI (XO (XI (XO (XO (XO (XO (XI (XI (XO
    (XI (XO (XI (XO (XO (XO (XI (XO (XO (XO (XO (XI (XI (XI (XO (XO (XO (XO
    (XO (XO (XI (XO (XI (XI (XI (XO (XO (XO (XO (XO (XO (XO (XI (XO (XO (XI
    (XI (XO (XI (XO (XO (XO
    XH)))))))))))))))))))))))))))))))))))))))))))))))))))))))))))); qden =
    (XO (XO (XO (XO (XO (XO (XO (XO (XO (XO (XO (XO (XO (XO (XO (XO (XO (XO
    (XO (XO (XO (XO (XO (XO (XO (XO (XI (XO (XO (XO (XO (XO (XI (XI (XO (XO
    (XI (XI (XO (XO (XI (XI (XO (XO (XI (XI (XO (XI (XO (XO (XO (XI (XO (XO
    (XI (XI
    XH)))))))))))))))))))))))))))))))))))))))))))))))))))))))) } :: ({ qnum =
    (Zneg (XI (XI (XO (XO (XO (XI (XO (XO (XO (XI (XI (XO (XI (XI (XO (XO (XO
    (XI (XO (XO (XI (XO (XI (XI (XO (XO (XO (XO (XI (XO (XO (XI (XI (XO (XO
    (XO (XI (XO (XO (XO (XI (XO (XI (XI (XI (XO (XI (XO (XO (XO (XO (XO (XI
    (XO (XO (XO (XI (XO (XO
    XH)))))))))))))))))))))))))))))))))))))))))))))))))))))))))))); qden =
    (XO (XO (XO (XO (XO (XO (XO (XO (XO (XO (XO (XO (XO (XO (XO (XO (XO (XO
    (XO (XO (XO (XO (XO (XO (XO (XO (XI (XO (XO (XO (XO (XO (XI (XI (XO (XO
    (XI (XI (XO (XO (XI (XI (XO (XO (XI (XI (XO (XI (XO (XO (XO (XI (XO (XO
    (XI (XI
    XH)))))))))))))))))))))))))))))))))))))))))))))))))))))))) } :: ({ qnum =
    (Zpos (XI (XO (XO (XO (XI (XI (XI (XI (XO (XI (XO (XO (XO (XO (XO (XI (XI
    (XO (XI (XO (XI (XI (XI (XO (XO (XI (XI (XO (XI (XO (XO (XO (XI (XI (XI
    (XI (XO (XI (XI (XI (XO (XO (XO (XO (XI (XI (XO (XO (XO (XI (XO (XO (XI
    (XI (XI XH))))))))))))))))))))))))))))))))))))))))))))))))))))))));
    qden = (XO (XO (XO (XO (XO (XO (XO (XO (XO (XO (XO (XO (XO (XO (XO (XO
    (XO (XO (XO (XO (XO (XO (XO (XO (XO (XO (XI (XI (XI (XO (XI (XI (XI (XI
    (XO (XI (XO (XI (XO (XO (XO (XI (XI (XI (XI (XI (XO (XO (XI (XO (XO (XO
    (XO (XO
    XH)))))))))))))))))))))))))))))))))))))))))))))))))))))) } :: ({ qnum =
    (Zneg (XI (XO (XO (XO (XI (XO (XI (XI (XO (XI (XI (XI (XO (XO (XO (XO (XO
    (XO (XO (XI (XO (XI (XO (XO (XI (XO (XI (XO (XI (XO (XO (XO (XI (XO (XO
    (XI (XO (XI (XO (XI (XI (XO (XO (XI (XI (XO (XO (XI (XI (XI (XI (XI (XO
    (XO (XO (XO XH)))))))))))))))))))))))))))))))))))))))))))))))))))))))));
    qden = (XO (XO (XO (XO (XO (XO (XO (XO (XO (XO (XO (XO (XO (XO (XO (XO
    (XO (XO (XO (XO (XO (XO (XO (XO (XO (XO (XI (XI (XO (XI (XO (XI (XI (XI
    (XO (XI (XI (XI (XO (XI (XI (XI (XO (XI (XI (XI (XO (XO (XO (XO (XO (XI
    (XI (XO (XO
    XH))))))))))))))))))))))))))))))))))))))))))))))))))))))) } :: ({ qnum =
    (Zpos (XI (XI (XI (XI (XO (XO (XI (XO (XO (XO (XI (XO (XI (XI (XO (XI (XO
    (XO (XI (XO (XI (XI (XO (XO (XO (XI (XI (XI (XI (XO (XI (XO (XI (XI (XI
    (XI (XI (XI (XO (XO (XI (XO (XI (XO (XI (XO (XO (XO (XI (XI (XI (XI (XO
    (XO (XI (XO XH)))))))))))))))))))))))))))))))))))))))))))))))))))))))));
    qden = (XO (XO (XO (XO (XO (XO (XO (XO (XO (XO (XO (XO (XO (XO (XO (XO
    (XO (XO (XO (XO (XO (XO (XO (XO (XO (XO (XI (XO (XO (XO (XO (XO (XI (XI
    (XO (XO (XI (XI (XO (XO (XI (XI (XO (XO (XI (XI (XO (XI (XO (XO (XO (XI
    (XO (XO (XI (XI
    XH)))))))))))))))))))))))))))))))))))))))))))))))))))))))) } :: ({ qnum =
    (Zneg (XI (XI (XI (XI (XI (XI (XO (XO (XI (XI (XO (XI (XI (XO (XI (XO (XI
    (XO (XO (XI (XO (XO (XO (XI (XI (XI (XO (XI (XO (XO (XO (XO (XI (XI (XI
    (XI (XO (XO (XI (XO (XO (XI (XO (XO (XO (XI (XO (XI (XI (XO (XO (XO (XI
    XH)))))))))))))))))))))))))))))))))))))))))))))))))))))); qden = (XO (XO
    (XO (XO (XO (XO (XO (XO (XO (XO (XO (XO (XO (XO (XO (XO (XO (XO (XO (XO
    (XO (XO (XO (XO (XO (XO (XI (XO (XO (XO (XO (XO (XI (XI (XO (XO (XI (XI
    (XO (XO (XI (XI (XO (XO (XI (XI (XO (XI (XO (XO (XO (XI (XO (XO (XI (XI
    XH)))))))))))))))))))))))))))))))))))))))))))))))))))))))) } :: ({ qnum =
    (Zpos (XI (XI (XO (XO (XI (XO (XO (XI (XI (XO (XO (XI (XO (XO (XI (XO (XI
    (XO (XO (XI (XI (XI (XO (XO (XI (XI (XI (XO (XI (XI (XO (XI (XI (XI (XI
    (XI (XI (XO (XI (XI (XO (XI (XO (XO (XO (XO (XO (XI (XO (XO (XO (XI (XO
    XH)))))))))))))))))))))))))))))))))))))))))))))))))))))); qden = (XO (XO
    (XO (XO (XO (XO (XO (XO (XO (XO (XO (XO (XO (XO (XO (XO (XO (XO (XO (XO
    (XO (XO (XO (XO (XO (XO (XI (XO (XO (XO (XO (XO (XI (XI (XO (XO (XI (XI
    (XO (XO (XI (XI (XO (XO (XI (XI (XO (XI (XO (XO (XO (XI (XO (XO (XI (XI
    XH)))))))))))))))))))))))))))))))))))))))))))))))))))))))) } :: [])))))))))))))))) :: (({ qnum =
    (Zpos (XI (XO (XI (XI (XO (XI (XO (XO (XI (XI (XI (XI (XI (XI (XO (XO (XI
    (XI (XI (XO (XI (XI (XO (XO (XO (XI (XO (XO (XO (XO (XO (XI (XI (XO (XO
    (XI (XO (XI (XI (XO (XO (XO (XI (XI (XO (XI (XO (XO (XO (XI (XO (XO (XO
    (XO (XO (XI (XO (XI (XO (XI (XO (XO
    XH))))))))))))))))))))))))))))))))))))))))))))))))))))))))))))))); qden =
    (XO (XO (XO (XO (XO (XO (XO (XO (XO (XO (XO (XO (XO (XO (XO (XO (XO (XO
    (XO (XO (XO (XO (XO (XO (XO (XO (XO (XO (XO (XO (XO (XI (XI (XI (XI (XO
    (XO (XI (XO (XI (XI (XI (XI (XI (XI (XI (XI (XI (XI (XI (XI (XI (XO (XO
    (XI (XO (XO (XO (XO (XI (XI (XO (XI (XO (XI
    XH))))))))))))))))))))))))))))))))))))))))))))))))))))))))))))))))) } :: ({ qnum =
    (Zneg (XI (XO (XO (XI (XO (XO (XO (XI (XO (XI (XI (XI (XO (XO (XI (XI (XI
    (XI (XI (XI (XI (XO (XO (XO (XI (XI (XO (XO (XO (XI (XI (XI (XI (XO (XI
    (XI (XI (XI (XI (XO (XO (XO (XO (XI (XI (XO (XO (XO (XI (XI (XI (XI (XO
    (XO (XO (XI (XO (XO (XO
    XH)))))))))))))))))))))))))))))))))))))))))))))))))))))))))))); qden =
    (XO (XO (XO (XO (XO (XO (XO (XO (XO (XO (XO (XO (XO (XO (XO (XO (XO (XO
    (XO (XO (XO (XO (XO (XO (XO (XO (XO (XI (XI (XI (XI (XO (XO (XI (XO (XI
    (XI (XI (XI (XI (XI (XI (XI (XI (XI (XI (XI (XI (XO (XO (XI (XO (XO (XO
    (XO (XI (XI (XO (XI (XO (XI
    XH))))))))))))))))))))))))))))))))))))))))))))))))))))))))))))) } :: ({ qnum =
    (Zpos (XI (XI (XI (XO (XI (XI (XI (XO (XI (XI (XI (XI (XI (XO (XO (XO (XI
    (XI (XI (XO (XI (XI (XO (XO (XI (XO (XO (XI (XO (XI (XO (XO (XO (XO (XI
    (XO (XI (XI (XI (XO (XI (XI (XO (XI (XI (XO (XO (XI (XI (XI (XO (XI
    XH))))))))))))))))))))))))))))))))))))))))))))))))))))); qden = (XO (XO
    (XO (XO (XO (XO (XO (XO (XO (XO (XO (XO (XO (XO (XO (XO (XO (XO (XO (XO
    (XO (XO (XO (XO (XO (XO (XO (XO (XI (XI (XO (XO (XO (XI (XO (XI (XI (XI
    (XI (XO (XI (XI (XO (XI (XI (XO (XI (XO (XO (XO (XO (XI
    XH)))))))))))))))))))))))))))))))))))))))))))))))))))) } :: ({ qnum =
    (Zneg (XI (XI (XI (XI (XI (XO (XI (XI (XO (XO (XO (XI (XI (XI (XO (XO (XI
    (XI (XO (XI (XO (XO (XI (XI (XO (XI (XI (XI (XO (XO (XO (XI (XO (XI (XI
    (XI (XI (XO (XO (XO (XI (XO (XO (XO (XO (XO (XO (XI (XO (XO (XI (XO (XI
    (XI (XO (XI (XO (XO (XO (XI (XO
    XH)))))))))))))))))))))))))))))))))))))))))))))))))))))))))))))); qden =
    (XO (XO (XO (XO (XO (XO (XO (XO (XO (XO (XO (XO (XO (XO (XO (XO (XO (XO
    (XO (XO (XO (XO (XO (XO (XO (XO (XO (XI (XI (XO (XO (XO (XO (XI (XO (XO
    (XI (XI (XO (XO (XI (XI (XO (XO (XI (XI (XO (XO (XO (XO (XI (XO (XI (XI
    (XO (XI (XO (XI (XO
    XH))))))))))))))))))))))))))))))))))))))))))))))))))))))))))) } :: ({ qnum =
    (Zpos (XI (XO (XO (XI (XI (XI (XO (XO (XO (XO (XO (XI (XI (XI (XI (XO (XI
    (XO (XO (XI (XO (XI (XO (XO (XI (XI (XO (XI (XO (XI (XI (XO (XO (XI (XO
    (XO (XI (XO (XO (XO (XI (XI (XI (XI (XI (XI (XI (XO (XO (XI (XO (XO (XO
    (XO (XI (XO (XO (XO (XO
    XH)))))))))))))))))))))))))))))))))))))))))))))))))))))))))))); qden =
    (XO (XO (XO (XO (XO (XO (XO (XO (XO (XO (XO (XO (XO (XO (XO (XO (XO (XO
    (XO (XO (XO (XO (XO (XO (XO (XO (XO (XO (XO (XI (XO (XI (XO (XI (XO (XI
    (XO (XO (XO (XI (XI (XO (XO (XI (XO (XO (XI (XO (XI (XI (XI (XO (XO (XO
    (XI
    XH))))))))))))))))))))))))))))))))))))))))))))))))))))))) } :: ({ qnum =
    (Zneg (XI (XO (XO (XO (XI (XI (XO (XI (XI (XO (XI (XO (XI (XI (XO (XO (XI
    (XO (XO (XO (XI (XI (XO (XI (XI (XI (XI (XO (XI (XI (XI (XO (XO (XO (XO
    (XI (XO (XO (XI (XO (XO (XO (XI (XO (XO (XO (XI (XO (XI (XO (XO (XI (XI
    (XO (XO (XI (XI (XO (XI (XO (XO (XO (XO
    XH))))))))))))))))))))))))))))))))))))))))))))))))))))))))))))))));
    qden = (XO (XO (XO (XO (XO (XO (XO (XO (XO (XO (XO (XO (XO (XO (XO (XO
    (XO (XO (XO (XO (XO (XO (XO (XO (XO (XO (XO (XI (XI (XI (XO (XI (XO (XO
    (XI (XO (XI (XO (XI (XO (XI (XO (XI (XO (XI (XO (XI (XO (XO (XI (XO (XO
    (XI (XI (XI (XI (XI (XO
    XH)))))))))))))))))))))))))))))))))))))))))))))))))))))))))) } :: ({ qnum =
    (Zpos (XI (XO (XI (XO (XO (XI (XO (XI (XI (XO (XO (XI (XI (XI (XI (XO (XO
    (XI (XI (XO (XI (XO (XI (XO (XO (XO (XI (XI (XI (XI (XI (XI (XO (XI (XO
    (XI (XI (XO (XO (XI (XI (XO (XI (XI (XO (XI (XI (XI (XO (XO (XI (XI (XO
    (XO (XI (XI (XO (XI (XI (XO (XO (XO (XO (XO (XO (XO (XO (XO
    XH)))))))))))))))))))))))))))))))))))))))))))))))))))))))))))))))))))));
    qden = (XO (XO (XO (XO (XO (XO (XO (XO (XO (XO (XO (XO (XO (XO (XO (XO
    (XO (XO (XO (XO (XO (XO (XO (XO (XO (XO (XO (XO (XI (XI (XI (XI (XO (XO
    (XI (XO (XI (XI (XI (XI (XI (XI (XI (XI (XI (XI (XI (XI (XI (XO (XO (XI
    (XO (XO (XO (XO (XI (XI (XO (XI (XO (XI
    XH)))))))))))))))))))))))))))))))))))))))))))))))))))))))))))))) } :: ({ qnum =
    (Zneg (XI (XI (XO (XI (XI (XO (XI (XO (XI (XO (XI (XO (XO (XI (XO (XI (XO
    (XI (XI (XO (XO (XO (XO (XO (XI (XI (XO (XI (XO (XI (XO (XO (XI (XO (XO
    (XI (XI (XI (XI (XO (XO (XO (XO (XO (XI (XI (XI (XO (XO (XO (XI (XI (XI
    (XI (XI (XI (XI (XI (XI (XI (XO (XI
    XH))))))))))))))))))))))))))))))))))))))))))))))))))))))))))))))); qden =
    (XO (XO (XO (XO (XO (XO (XO (XO (XO (XO (XO (XO (XO (XO (XO (XO (XO (XO
    (XO (XO (XO (XO (XO (XO (XO (XO (XO (XI (XI (XI (XO (XO (XI (XO (XI (XI
    (XI (XI (XO (XO (XO (XI (XO (XI (XO (XO (XO (XO (XO (XO (XI (XO (XO (XI
    (XO (XO (XO
    XH))))))))))))))))))))))))))))))))))))))))))))))))))))))))) } :: ({ qnum =
    (Zpos (XI (XO (XO (XO (XO (XI (XI (XO (XO (XO (XI (XO (XO (XI (XI (XI (XI
    (XI (XI (XO (XO (XI (XO (XI (XO (XI (XI (XI (XI (XI (XI (XI (XO (XO (XO
    (XO (XO (XI (XI (XO (XO (XO (XI (XO (XI (XO (XO (XI (XI (XI (XO (XO (XI
    (XI (XI (XO (XO (XO (XO (XI (XI (XI (XO
    XH))))))))))))))))))))))))))))))))))))))))))))))))))))))))))))))));
    qden = (XO (XO (XO (XO (XO (XO (XO (XO (XO (XO (XO (XO (XO (XO (XO (XO
    (XO (XO (XO (XO (XO (XO (XO (XO (XO (XO (XO (XO (XO (XO (XI (XO (XO (XI
    (XI (XI (XI (XI (XO (XO (XI (XO (XO (XI (XO (XI (XI (XI (XI (XI (XO (XI
    (XO (XI (XO (XO (XI
    XH))))))))))))))))))))))))))))))))))))))))))))))))))))))))) } :: ({ qnum =
    (Zneg (XI (XI (XO (XI (XI (XO (XI (XO (XI (XO (XI (XO (XO (XI (XO (XI (XO
    (XI (XI (XO (XO (XO (XO (XO (XI (XI (XO (XI (XO (XI (XO (XO (XI (XO (XO
    (XI (XI (XI (XI (XO (XO (XO (XO (XO (XI (XI (XI (XO (XO (XO (XI (XI (XI
    (XI (XI (XI (XI (XI (XI (XI (XO (XI
    XH))))))))))))))))))))))))))))))))))))))))))))))))))))))))))))))); qden =
    (XO (XO (XO (XO (XO (XO (XO (XO (XO (XO (XO (XO (XO (XO (XO (XO (XO (XO
    (XO (XO (XO (XO (XO (XO (XO (XO (XO (XI (XI (XI (XO (XO (XI (XO (XI (XI
    (XI (XI (XO (XO (XO (XI (XO (XI (XO (XO (XO (XO (XO (XO (XI (XO (XO (XI
    (XO (XO (XO
    XH))))))))))))))))))))))))))))))))))))))))))))))))))))))))) } :: ({ qnum =
    (Zpos (XI (XO (XI (XO (XO (XI (XO (XI (XI (XO (XO (XI (XI (XI (XI (XO (XO
    (XI (XI (XO (XI (XO (XI (XO (XO (XO (XI (XI (XI (XI (XI (XI (XO (XI (XO
    (XI (XI (XO (XO (XI (XI (XO (XI (XI (XO (XI (XI (XI (XO (XO (XI (XI (XO
    (XO (XI (XI (XO (XI (XI (XO (XO (XO (XO (XO (XO (XO (XO (XO
    XH)))))))))))))))))))))))))))))))))))))))))))))))))))))))))))))))))))));
    qden = (XO (XO (XO (XO (XO (XO (XO (XO (XO (XO (XO (XO (XO (XO (XO (XO
    (XO (XO (XO (XO (XO (XO (XO (XO (XO (XO (XO (XO (XI (XI (XI (XI (XO (XO
    (XI (XO (XI (XI (XI (XI (XI (XI (XI (XI (XI (XI (XI (XI (XI (XO (XO (XI
    (XO (XO (XO (XO (XI (XI (XO (XI (XO (XI
    XH)))))))))))))))))))))))))))))))))))))))))))))))))))))))))))))) } :: ({ qnum =
    (Zneg (XI (XO (XO (XO (XI (XI (XO (XI (XI (XO (XI (XO (XI (XI (XO (XO (XI
    (XO (XO (XO (XI (XI (XO (XI (XI (XI (XI (XO (XI (XI (XI (XO (XO (XO (XO
    (XI (XO (XO (XI (XO (XO (XO (XI (XO (XO (XO (XI (XO (XI (XO (XO (XI (XI
    (XO (XO (XI (XI (XO (XI (XO (XO (XO (XO
    XH))))))))))))))))))))))))))))))))))))))))))))))))))))))))))))))));
    qden = (XO (XO (XO (XO (XO (XO (XO (XO (XO (XO (XO (XO (XO (XO (XO (XO
    (XO (XO (XO (XO (XO (XO (XO (XO (XO (XO (XO (XI (XI (XI (XO (XI (XO (XO
    (XI (XO (XI (XO (XI (XO (XI (XO (XI (XO (XI (XO (XI (XO (XO (XI (XO (XO
    (XI (XI (XI (XI (XI (XO
    XH)))))))))))))))))))))))))))))))))))))))))))))))))))))))))) } :: ({ qnum =
    (Zpos (XI (XO (XO (XI (XI (XI (XO (XO (XO (XO (XO (XI (XI (XI (XI (XO (XI
    (XO (XO (XI (XO (XI (XO (XO (XI (XI (XO (XI (XO (XI (XI (XO (XO (XI (XO
    (XO (XI (XO (XO (XO (XI (XI (XI (XI (XI (XI (XI (XO (XO (XI (XO (XO (XO
    (XO (XI (XO (XO (XO (XO
    XH)))))))))))))))))))))))))))))))))))))))))))))))))))))))))))); qden =
    (XO (XO (XO (XO (XO (XO (XO (XO (XO (XO (XO (XO (XO (XO (XO (XO (XO (XO
    (XO (XO (XO (XO (XO (XO (XO (XO (XO (XO (XO (XI (XO (XI (XO (XI (XO (XI
    (XO (XO (XO (XI (XI (XO (XO (XI (XO (XO (XI (XO (XI (XI (XI (XO (XO (XO
    (XI
    XH))))))))))))))))))))))))))))))))))))))))))))))))))))))) } :: ({ qnum =
    (Zneg (XI (XI (XI (XI (XI (XO (XI (XI (XO (XO (XO (XI (XI (XI (XO (XO (XI
    (XI (XO (XI (XO (XO (XI (XI (XO (XI (XI (XI (XO (XO (XO (XI (XO (XI (XI
    (XI (XI (XO (XO (XO (XI (XO (XO (XO (XO (XO (XO (XI (XO (XO (XI (XO (XI
    (XI (XO (XI (XO (XO (XO (XI (XO
    XH)))))))))))))))))))))))))))))))))))))))))))))))))))))))))))))); qden =
    (XO (XO (XO (XO (XO (XO (XO (XO (XO (XO (XO (XO (XO (XO (XO (XO (XO (XO
    (XO (XO (XO (XO (XO (XO (XO (XO (XO (XI (XI (XO (XO (XO (XO (XI (XO (XO
    (XI (XI (XO (XO (XI (XI (XO (XO (XI (XI (XO (XO (XO (XO (XI (XO (XI (XI
    (XO (XI (XO (XI (XO
    XH))))))))))))))))))))))))))))))))))))))))))))))))))))))))))) } :: ({ qnum =
    (Zpos (XI (XI (XI (XO (XI (XI (XI (XO (XI (XI (XI (XI (XI (XO (XO (XO (XI
    (XI (XI (XO (XI (XI (XO (XO (XI (XO (XO (XI (XO (XI (XO (XO (XO (XO (XI
    (XO (XI (XI (XI (XO (XI (XI (XO (XI (XI (XO (XO (XI (XI (XI (XO (XI
    XH))))))))))))))))))))))))))))))))))))))))))))))))))))); qden = (XO (XO
    (XO (XO (XO (XO (XO (XO (XO (XO (XO (XO (XO (XO (XO (XO (XO (XO (XO (XO
    (XO (XO (XO (XO (XO (XO (XO (XO (XI (XI (XO (XO (XO (XI (XO (XI (XI (XI
    (XI (XO (XI (XI (XO (XI (XI (XO (XI (XO (XO (XO (XO (XI
    XH)))))))))))))))))))))))))))))))))))))))))))))))))))) } :: ({ qnum =
    (Zneg (XI (XO (XO (XI (XO (XO (XO (XI (XO (XI (XI (XI (XO (XO (XI (XI (XI
    (XI (XI (XI (XI (XO (XO (XO (XI (XI (XO (XO (XO (XI (XI (XI (XI (XO (XI
    (XI (XI (XI (XI (XO (XO (XO (XO (XI (XI (XO (XO (XO (XI (XI (XI (XI (XO
    (XO (XO (XI (XO (XO (XO
    XH)))))))))))))))))))))))))))))))))))))))))))))))))))))))))))); qden =
    (XO (XO (XO (XO (XO (XO (XO (XO (XO (XO (XO (XO (XO (XO (XO (XO (XO (XO
    (XO (XO (XO (XO (XO (XO (XO (XO (XO (XI (XI (XI (XI (XO (XO (XI (XO (XI
    (XI (XI (XI (XI (XI (XI (XI (XI (XI (XI (XI (XI (XO (XO (XI (XO (XO (XO
    (XO (XI (XI (XO (XI (XO (XI
    XH))))))))))))))))))))))))))))))))))))))))))))))))))))))))))))) } :: ({ qnum =
    (Zpos (XI (XO (XI (XI (XO (XI (XO (XO (XI (XI (XI (XI (XI (XI (XO (XO (XI
    (XI (XI (XO (XI (XI (XO (XO (XO (XI (XO (XO (XO (XO (XO (XI (XI (XO (XO
    (XI (XO (XI (XI (XO (XO (XO (XI (XI (XO (XI (XO (XO (XO (XI (XO (XO (XO
    (XO (XO (XI (XO (XI (XO (XI (XO (XO
    XH))))))))))))))))))))))))))))))))))))))))))))))))))))))))))))))); qden =
    (XO (XO (XO (XO (XO (XO (XO (XO (XO (XO (XO (XO (XO (XO (XO (XO (XO (XO
    (XO (XO (XO (XO (XO (XO (XO (XO (XO (XO (XO (XO (XO (XI (XI (XI (XI (XO
    (XO (XI (XO (XI (XI (XI (XI (XI (XI (XI (XI (XI (XI (XI (XI (XI (XO (XO
    (XI (XO (XO (XO (XO (XI (XI (XO (XI (XO (XI
    XH))))))))))))))))))))))))))))))))))))))))))))))))))))))))))))))))) } :: []))))))))))))))))) :: (({ qnum =
    (Zpos (XI (XO (XI (XI (XI (XO (XI (XI (XI (XO (XI (XI (XO (XO (XO (XO (XI
    (XO (XO (XI (XO (XO (XO (XO (XI (XO (XO (XI (XO (XI (XI (XO (XO (XO (XI
    (XO (XO (XI (XI (XO (XI (XI (XO (XI (XI (XO (XO (XO (XO (XO (XI (XI (XI
    (XO XH))))))))))))))))))))))))))))))))))))))))))))))))))))))); qden = (XO
    (XO (XO (XO (XO (XO (XO (XO (XO (XO (XO (XO (XO (XO (XO (XO (XO (XO (XO
    (XO (XO (XO (XO (XO (XO (XO (XO (XO (XO (XO (XO (XO (XI (XI (XI (XI (XI
    (XO (XI (XI (XI (XO (XO (XO (XO (XO (XO (XO (XO (XO (XO (XO (XI (XI (XI
    (XO (XO (XO
    XH)))))))))))))))))))))))))))))))))))))))))))))))))))))))))) } :: ({ qnum =
    (Zneg (XI (XI (XI (XO (XI (XO (XI (XO (XO (XO (XO (XO (XI (XI (XO (XI (XO
    (XO (XO (XO (XO (XO (XI (XO (XI (XO (XI (XI (XI (XO (XO (XI (XI (XI (XI
    (XO (XO (XI (XI (XI (XI (XO (XO (XO (XI (XO (XI (XI (XI (XO (XI (XI
    XH))))))))))))))))))))))))))))))))))))))))))))))))))))); qden = (XO (XO
    (XO (XO (XO (XO (XO (XO (XO (XO (XO (XO (XO (XO (XO (XO (XO (XO (XO (XO
    (XO (XO (XO (XO (XO (XO (XO (XO (XO (XO (XO (XO (XI (XI (XO (XO (XI (XO
    (XO (XI (XI (XI (XO (XO (XI (XI (XO (XO (XI (XI (XO (XO (XO (XI (XI
    XH))))))))))))))))))))))))))))))))))))))))))))))))))))))) } :: ({ qnum =
    (Zpos (XI (XO (XO (XO (XI (XO (XI (XO (XI (XI (XO (XI (XO (XI (XI (XO (XO
    (XO (XO (XI (XI (XI (XO (XO (XI (XI (XO (XO (XO (XO (XI (XO (XI (XO (XI
    (XI (XI (XO (XO (XO (XO (XI (XO (XO (XI (XO (XO (XO (XO (XO (XO (XO (XO
    (XO (XO XH))))))))))))))))))))))))))))))))))))))))))))))))))))))));
    qden = (XO (XO (XO (XO (XO (XO (XO (XO (XO (XO (XO (XO (XO (XO (XO (XO
    (XO (XO (XO (XO (XO (XO (XO (XO (XO (XO (XO (XO (XO (XI (XI (XI (XI (XI
    (XO (XI (XI (XI (XO (XO (XO (XO (XO (XO (XO (XO (XO (XO (XO (XI (XI (XI
    (XO (XO (XO
    XH))))))))))))))))))))))))))))))))))))))))))))))))))))))) } :: ({ qnum =
    (Zneg (XI (XO (XO (XO (XI (XO (XI (XO (XI (XO (XO (XI (XI (XO (XO (XO (XO
    (XI (XI (XO (XI (XO (XI (XO (XI (XO (XO (XI (XO (XO (XI (XI (XI (XO (XI
    (XO (XO (XI (XI (XO (XO (XI (XO (XI (XO (XI (XI (XI (XO (XI (XO
    XH)))))))))))))))))))))))))))))))))))))))))))))))))))); qden = (XO (XO
    (XO (XO (XO (XO (XO (XO (XO (XO (XO (XO (XO (XO (XO (XO (XO (XO (XO (XO
    (XO (XO (XO (XO (XO (XO (XO (XO (XO (XI (XO (XI (XO (XI (XO (XO (XO (XI
    (XO (XI (XO (XI (XI (XI (XO (XO (XO (XO (XO (XO
    XH)))))))))))))))))))))))))))))))))))))))))))))))))) } :: ({ qnum = (Zpos
    (XI (XI (XO (XO (XI (XO (XO (XO (XI (XO (XI (XI (XI (XI (XI (XO (XI (XI
    (XI (XO (XI (XO (XI (XI (XI (XO (XO (XO (XI (XO (XI (XI (XO (XI (XO (XO
    (XO (XI (XI (XO (XO (XI (XO (XI (XI (XI (XO (XI (XO (XO (XO (XI (XI (XI
    (XI (XO XH)))))))))))))))))))))))))))))))))))))))))))))))))))))))));
    qden = (XO (XO (XO (XO (XO (XO (XO (XO (XO (XO (XO (XO (XO (XO (XO (XO
    (XO (XO (XO (XO (XO (XO (XO (XO (XO (XO (XO (XO (XO (XO (XI (XI (XO (XO
    (XI (XO (XO (XI (XI (XI (XO (XO (XI (XI (XO (XO (XI (XI (XO (XO (XO (XI
    (XI
    XH))))))))))))))))))))))))))))))))))))))))))))))))))))) } :: ({ qnum =
    (Zneg (XI (XI (XI (XI (XI (XO (XI (XO (XO (XO (XO (XO (XO (XI (XI (XO (XI
    (XI (XI (XO (XI (XI (XO (XI (XO (XO (XI (XO (XO (XI (XO (XO (XO (XO (XI
    (XO (XO (XI (XO (XO (XI (XI (XO (XI (XI (XI (XO (XI (XO (XI (XO (XI (XI
    (XO (XI (XI XH)))))))))))))))))))))))))))))))))))))))))))))))))))))))));
    qden = (XO (XO (XO (XO (XO (XO (XO (XO (XO (XO (XO (XO (XO (XO (XO (XO
    (XO (XO (XO (XO (XO (XO (XO (XO (XO (XO (XO (XO (XO (XO (XI (XO (XO (XI
    (XO (XI (XI (XO (XI (XO (XO (XI (XO (XO (XI (XO (XO (XI (XO (XO (XO (XI
    (XO
    XH))))))))))))))))))))))))))))))))))))))))))))))))))))) } :: ({ qnum =
    (Zpos (XI (XO (XI (XO (XI (XO (XO (XO (XI (XO (XO (XI (XI (XO (XI (XI (XO
    (XO (XI (XI (XO (XI (XO (XI (XI (XI (XI (XI (XI (XO (XO (XO (XO (XI (XI
    (XO (XI (XI (XI (XO (XI (XI (XI (XO (XO (XO (XO (XO (XO (XO (XO (XI (XO
    XH)))))))))))))))))))))))))))))))))))))))))))))))))))))); qden = (XO (XO
    (XO (XO (XO (XO (XO (XO (XO (XO (XO (XO (XO (XO (XO (XO (XO (XO (XO (XO
    (XO (XO (XO (XO (XO (XO (XO (XO (XO (XI (XO (XO (XI (XI (XO (XO (XI (XI
    (XI (XI (XO (XO (XI (XO (XI (XO (XO (XI (XO
    XH))))))))))))))))))))))))))))))))))))))))))))))))) } :: ({ qnum = (Zneg
    (XI (XO (XO (XO (XI (XO (XO (XI (XO (XO (XI (XI (XO (XO (XI (XI (XI (XI
    (XO (XO (XI (XI (XO (XO (XO (XI (XO (XO (XI (XI (XO (XI (XO (XO (XO (XI
    (XI (XO (XI (XI (XO (XI (XO (XO (XI (XI (XI (XO (XI (XI (XO (XO (XO (XI
    (XO (XI (XI (XI
    XH))))))))))))))))))))))))))))))))))))))))))))))))))))))))))); qden = (XO
    (XO (XO (XO (XO (XO (XO (XO (XO (XO (XO (XO (XO (XO (XO (XO (XO (XO (XO
    (XO (XO (XO (XO (XO (XO (XO (XO (XO (XO (XI (XI (XI (XI (XI (XO (XI (XI
    (XI (XO (XO (XO (XO (XO (XO (XO (XO (XO (XO (XO (XI (XI (XI (XO (XO (XO
    XH))))))))))))))))))))))))))))))))))))))))))))))))))))))) } :: ({ qnum =
    (Zpos (XI (XI (XO (XO (XI (XO (XI (XO (XO (XI (XO (XI (XI (XI (XI (XO (XO
    (XO (XO (XO (XI (XI (XI (XI (XO (XI (XI (XO (XO (XI (XI (XO (XI (XO (XI
    (XO (XO (XI (XO (XO (XO (XO (XI (XI (XO (XO (XO (XI (XO (XO (XI (XO (XO
    (XO (XO (XI (XO
    XH)))))))))))))))))))))))))))))))))))))))))))))))))))))))))); qden = (XO
    (XO (XO (XO (XO (XO (XO (XO (XO (XO (XO (XO (XO (XO (XO (XO (XO (XO (XO
    (XO (XO (XO (XO (XO (XO (XO (XO (XO (XO (XO (XO (XI (XI (XO (XO (XI (XO
    (XO (XI (XI (XI (XO (XO (XI (XI (XO (XO (XI (XI (XO (XO (XO (XI (XI
    XH)))))))))))))))))))))))))))))))))))))))))))))))))))))) } :: ({ qnum =
    (Zpos (XI (XI (XO (XO (XI (XO (XI (XO (XO (XI (XO (XI (XI (XI (XI (XO (XO
    (XO (XO (XO (XI (XI (XI (XI (XO (XI (XI (XO (XO (XI (XI (XO (XI (XO (XI
    (XO (XO (XI (XO (XO (XO (XO (XI (XI (XO (XO (XO (XI (XO (XO (XI (XO (XO
    (XO (XO (XI (XO
    XH)))))))))))))))))))))))))))))))))))))))))))))))))))))))))); qden = (XO
    (XO (XO (XO (XO (XO (XO (XO (XO (XO (XO (XO (XO (XO (XO (XO (XO (XO (XO
    (XO (XO (XO (XO (XO (XO (XO (XO (XO (XO (XO (XO (XI (XI (XO (XO (XI (XO
    (XO (XI (XI (XI (XO (XO (XI (XI (XO (XO (XI (XI (XO (XO (XO (XI (XI
    XH)))))))))))))))))))))))))))))))))))))))))))))))))))))) } :: ({ qnum =
    (Zneg (XI (XO (XO (XO (XI (XO (XO (XI (XO (XO (XI (XI (XO (XO (XI (XI (XI
    (XI (XO (XO (XI (XI (XO (XO (XO (XI (XO (XO (XI (XI (XO (XI (XO (XO (XO
    (XI (XI (XO (XI (XI (XO (XI (XO (XO (XI (XI (XI (XO (XI (XI (XO (XO (XO
    (XI (XO (XI (XI (XI
    XH))))))))))))))))))))))))))))))))))))))))))))))))))))))))))); qden = (XO
    (XO (XO (XO (XO (XO (XO (XO (XO (XO (XO (XO (XO (XO (XO (XO (XO (XO (XO
    (XO (XO (XO (XO (XO (XO (XO (XO (XO (XO (XI (XI (XI (XI (XI (XO (XI (XI
    (XI (XO (XO (XO (XO (XO (XO (XO (XO (XO (XO (XO (XI (XI (XI (XO (XO (XO
    XH))))))))))))))))))))))))))))))))))))))))))))))))))))))) } :: ({ qnum =
    (Zpos (XI (XO (XI (XO (XI (XO (XO (XO (XI (XO (XO (XI (XI (XO (XI (XI (XO
    (XO (XI (XI (XO (XI (XO (XI (XI (XI (XI (XI (XI (XO (XO (XO (XO (XI (XI
    (XO (XI (XI (XI (XO (XI (XI (XI (XO (XO (XO (XO (XO (XO (XO (XO (XI (XO
    XH)))))))))))))))))))))))))))))))))))))))))))))))))))))); qden = (XO (XO
    (XO (XO (XO (XO (XO (XO (XO (XO (XO (XO (XO (XO (XO (XO (XO (XO (XO (XO
    (XO (XO (XO (XO (XO (XO (XO (XO (XO (XI (XO (XO (XI (XI (XO (XO (XI (XI
    (XI (XI (XO (XO (XI (XO (XI (XO (XO (XI (XO
    XH))))))))))))))))))))))))))))))))))))))))))))))))) } :: ({ qnum = (Zneg
    (XI (XI (XI (XI (XI (XO (XI (XO (XO (XO (XO (XO (XO (XI (XI (XO (XI (XI
    (XI (XO (XI (XI (XO (XI (XO (XO (XI (XO (XO (XI (XO (XO (XO (XO (XI (XO
    (XO (XI (XO (XO (XI (XI (XO (XI (XI (XI (XO (XI (XO (XI (XO (XI (XI (XO
    (XI (XI XH)))))))))))))))))))))))))))))))))))))))))))))))))))))))));
    qden = (XO (XO (XO (XO (XO (XO (XO (XO (XO (XO (XO (XO (XO (XO (XO (XO
    (XO (XO (XO (XO (XO (XO (XO (XO (XO (XO (XO (XO (XO (XO (XI (XO (XO (XI
    (XO (XI (XI (XO (XI (XO (XO (XI (XO (XO (XI (XO (XO (XI (XO (XO (XO (XI
    (XO
    XH))))))))))))))))))))))))))))))))))))))))))))))))))))) } :: ({ qnum =
    (Zpos (XI (XI (XO (XO (XI (XO (XO (XO (XI (XO (XI (XI (XI (XI (XI (XO (XI
    (XI (XI (XO (XI (XO (XI (XI (XI (XO (XO (XO (XI (XO (XI (XI (XO (XI (XO
    (XO (XO (XI (XI (XO (XO (XI (XO (XI (XI (XI (XO (XI (XO (XO (XO (XI (XI
    (XI (XI (XO XH)))))))))))))))))))))))))))))))))))))))))))))))))))))))));
    qden = (XO (XO (XO (XO (XO (XO (XO (XO (XO (XO (XO (XO (XO (XO (XO (XO
    (XO (XO (XO (XO (XO (XO (XO (XO (XO (XO (XO (XO (XO (XO (XI (XI (XO (XO
    (XI (XO (XO (XI (XI (XI (XO (XO (XI (XI (XO (XO (XI (XI (XO (XO (XO (XI
    (XI
    XH))))))))))))))))))))))))))))))))))))))))))))))))))))) } :: ({ qnum =
    (Zneg (XI (XO (XO (XO (XI (XO (XI (XO (XI (XO (XO (XI (XI (XO (XO (XO (XO
    (XI (XI (XO (XI (XO (XI (XO (XI (XO (XO (XI (XO (XO (XI (XI (XI (XO (XI
    (XO (XO (XI (XI (XO (XO (XI (XO (XI (XO (XI (XI (XI (XO (XI (XO
    XH)))))))))))))))))))))))))))))))))))))))))))))))))))); qden = (XO (XO
    (XO (XO (XO (XO (XO (XO (XO (XO (XO (XO (XO (XO (XO (XO (XO (XO (XO (XO
    (XO (XO (XO (XO (XO (XO (XO (XO (XO (XI (XO (XI (XO (XI (XO (XO (XO (XI
    (XO (XI (XO (XI (XI (XI (XO (XO (XO (XO (XO (XO
    XH)))))))))))))))))))))))))))))))))))))))))))))))))) } :: ({ qnum = (Zpos
    (XI (XO (XO (XO (XI (XO (XI (XO (XI (XI (XO (XI (XO (XI (XI (XO (XO (XO
    (XO (XI (XI (XI (XO (XO (XI (XI (XO (XO (XO (XO (XI (XO (XI (XO (XI (XI
    (XI (XO (XO (XO (XO (XI (XO (XO (XI (XO (XO (XO (XO (XO (XO (XO (XO (XO
    (XO XH)))))))))))))))))))))))))))))))))))))))))))))))))))))))); qden =
    (XO (XO (XO (XO (XO (XO (XO (XO (XO (XO (XO (XO (XO (XO (XO (XO (XO (XO
    (XO (XO (XO (XO (XO (XO (XO (XO (XO (XO (XO (XI (XI (XI (XI (XI (XO (XI
    (XI (XI (XO (XO (XO (XO (XO (XO (XO (XO (XO (XO (XO (XI (XI (XI (XO (XO
    (XO
    XH))))))))))))))))))))))))))))))))))))))))))))))))))))))) } :: ({ qnum =
    (Zneg (XI (XI (XI (XO (XI (XO (XI (XO (XO (XO (XO (XO (XI (XI (XO (XI (XO
    (XO (XO (XO (XO (XO (XI (XO (XI (XO (XI (XI (XI (XO (XO (XI (XI (XI (XI
    (XO (XO (XI (XI (XI (XI (XO (XO (XO (XI (XO (XI (XI (XI (XO (XI (XI
    XH))))))))))))))))))))))))))))))))))))))))))))))))))))); qden = (XO (XO
    (XO (XO (XO (XO (XO (XO (XO (XO (XO (XO (XO (XO (XO (XO (XO (XO (XO (XO
    (XO (XO (XO (XO (XO (XO (XO (XO (XO (XO (XO (XO (XI (XI (XO (XO (XI (XO
    (XO (XI (XI (XI (XO (XO (XI (XI (XO (XO (XI (XI (XO (XO (XO (XI (XI
    XH))))))))))))))))))))))))))))))))))))))))))))))))))))))) } :: ({ qnum =
    (Zpos (XI (XO (XI (XI (XI (XO (XI (XI (XI (XO (XI (XI (XO (XO (XO (XO (XI
    (XO (XO (XI (XO (XO (XO (XO (XI (XO (XO (XI (XO (XI (XI (XO (XO (XO (XI
    (XO (XO (XI (XI (XO (XI (XI (XO (XI (XI (XO (XO (XO (XO (XO (XI (XI (XI
    (XO XH))))))))))))))))))))))))))))))))))))))))))))))))))))))); qden = (XO
    (XO (XO (XO (XO (XO (XO (XO (XO (XO (XO (XO (XO (XO (XO (XO (XO (XO (XO
    (XO (XO (XO (XO (XO (XO (XO (XO (XO (XO (XO (XO (XO (XI (XI (XI (XI (XI
    (XO (XI (XI (XI (XO (XO (XO (XO (XO (XO (XO (XO (XO (XO (XO (XI (XI (XI
    (XO (XO (XO
    XH)))))))))))))))))))))))))))))))))))))))))))))))))))))))))) } :: [])))))))))))))))))) :: (({ qnum =
    (Zpos (XI (XI (XI (XI (XI (XI (XI (XO (XO (XO (XI (XI (XO (XI (XO (XI (XI
    (XO (XO (XO (XI (XI (XO (XI (XO (XO (XO (XO (XI (XI (XI (XI (XI (XI (XI
    (XI (XI (XI (XI (XI (XO (XO (XO (XI (XO (XI (XI (XI (XI (XO (XO (XO (XO
    (XI (XO (XI (XO (XO (XI (XI (XO (XI (XI (XO (XO (XO (XO (XI (XI (XO (XO
    XH))))))))))))))))))))))))))))))))))))))))))))))))))))))))))))))))))))))));
    qden = (XO (XO (XO (XO (XO (XO (XO (XO (XO (XO (XO (XO (XO (XO (XO (XO
    (XO (XO (XO (XO (XO (XO (XO (XO (XO (XO (XO (XO (XO (XO (XO (XO (XO (XO
    (XI (XI (XI (XI (XO (XI (XI (XO (XI (XI (XO (XI (XI (XO (XO (XI (XO (XO
    (XI (XI (XO (XI (XI (XO (XI (XO (XO (XI (XO (XI (XO (XI (XI (XO (XI (XI
    (XI (XO (XI (XI
    XH)))))))))))))))))))))))))))))))))))))))))))))))))))))))))))))))))))))))))) } :: ({ qnum =
    (Zneg (XI (XO (XI (XO (XO (XO (XI (XI (XO (XI (XI (XO (XI (XO (XO (XO (XI
    (XI (XI (XO (XI (XO (XI (XI (XI (XI (XO (XI (XO (XO (XO (XO (XO (XO (XO
    (XO (XO (XI (XI (XI (XI (XI (XO (XO (XO (XO (XI (XI (XI (XI (XO (XO (XO
    (XI (XO (XI (XO (XO (XI (XO (XI (XO (XO (XI (XO (XO (XI (XI (XI (XO (XO
    (XO
    XH)))))))))))))))))))))))))))))))))))))))))))))))))))))))))))))))))))))))));
    qden = (XO (XO (XO (XO (XO (XO (XO (XO (XO (XO (XO (XO (XO (XO (XO (XO
    (XO (XO (XO (XO (XO (XO (XO (XO (XO (XO (XO (XO (XO (XO (XO (XO (XO (XI
    (XO (XO (XI (XI (XI (XO (XI (XI (XO (XI (XI (XO (XI (XO (XI (XI (XI (XI
    (XI (XI (XO (XI (XO (XO (XI (XO (XI (XI (XO (XO (XO (XO (XO (XI (XI (XI
    (XO (XO (XO (XI
    XH)))))))))))))))))))))))))))))))))))))))))))))))))))))))))))))))))))))))))) } :: ({ qnum =
    (Zpos (XI (XO (XO (XO (XO (XO (XO (XO (XI (XI (XO (XI (XO (XI (XO (XI (XI
    (XI (XI (XI (XI (XI (XI (XI (XO (XI (XO (XI (XI (XO (XO (XO (XI (XI (XI
    (XO (XO (XI (XO (XO (XO (XI (XO (XI (XO (XO (XI (XO (XI (XI (XO (XI (XO
    (XI (XO (XI (XI (XO (XO (XO (XI (XI (XO (XI (XO (XO (XO (XO (XO (XO (XO
    (XI (XO (XO (XO (XO
    XH)))))))))))))))))))))))))))))))))))))))))))))))))))))))))))))))))))))))))))));
    qden = (XO (XO (XO (XO (XO (XO (XO (XO (XO (XO (XO (XO (XO (XO (XO (XO
    (XO (XO (XO (XO (XO (XO (XO (XO (XO (XO (XO (XO (XO (XO (XO (XO (XO (XO
    (XI (XO (XO (XI (XI (XI (XO (XI (XI (XO (XI (XI (XO (XI (XO (XI (XI (XI
    (XI (XI (XI (XO (XI (XO (XO (XI (XO (XI (XI (XO (XO (XO (XO (XO (XI (XI
    (XI (XO (XO (XO (XI
    XH))))))))))))))))))))))))))))))))))))))))))))))))))))))))))))))))))))))))))) } :: ({ qnum =
    (Zneg (XI (XI (XO (XI (XO (XI (XO (XI (XO (XI (XI (XI (XO (XI (XO (XO (XO
    (XI (XO (XO (XO (XO (XO (XI (XO (XO (XI (XI (XO (XO (XI (XI (XI (XI (XI
    (XO (XI (XO (XO (XI (XO (XO (XI (XI (XI (XI (XO (XO (XO (XO (XI (XO (XO
    (XO (XI (XI (XO (XI (XI (XO (XI (XO (XO (XO (XO (XO (XI (XI (XO (XO (XI
    XH))))))))))))))))))))))))))))))))))))))))))))))))))))))))))))))))))))))));
    qden = (XO (XO (XO (XO (XO (XO (XO (XO (XO (XO (XO (XO (XO (XO (XO (XO
    (XO (XO (XO (XO (XO (XO (XO (XO (XO (XO (XO (XO (XO (XO (XI (XO (XI (XO
    (XO (XI (XO (XO (XI (XO (XO (XI (XO (XO (XO (XI (XI (XO (XO (XI (XI (XI
    (XI (XO (XO (XO (XO (XI (XI (XI (XO (XO (XI (XI (XI (XI (XI (XO (XO
    XH))))))))))))))))))))))))))))))))))))))))))))))))))))))))))))))))))))) } :: ({ qnum =
    (Zpos (XI (XO (XO (XO (XO (XI (XI (XO (XI (XO (XO (XO (XI (XI (XO (XI (XO
    (XI (XO (XI (XO (XO (XI (XO (XI (XO (XO (XI (XO (XO (XI (XO (XI (XO (XO
    (XO (XI (XO (XO (XI (XI (XI (XI (XI (XO (XI (XI (XI (XI (XO (XI (XO (XI
    (XO (XO (XI (XO (XO (XO (XO (XO (XO (XO (XI (XO (XO (XI (XO (XI (XO (XO
    (XO (XO (XI (XO
    XH))))))))))))))))))))))))))))))))))))))))))))))))))))))))))))))))))))))))))));
    qden = (XO (XO (XO (XO (XO (XO (XO (XO (XO (XO (XO (XO (XO (XO (XO (XO
    (XO (XO (XO (XO (XO (XO (XO (XO (XO (XO (XO (XO (XO (XO (XO (XO (XI (XO
    (XI (XO (XO (XI (XO (XO (XI (XO (XO (XI (XO (XO (XO (XI (XI (XO (XO (XI
    (XI (XI (XI (XO (XO (XO (XO (XI (XI (XI (XO (XO (XI (XI (XI (XI (XI (XO
    (XO
    XH))))))))))))))))))))))))))))))))))))))))))))))))))))))))))))))))))))))) } :: ({ qnum =
    (Zneg (XI (XO (XO (XI (XI (XI (XO (XO (XO (XI (XI (XO (XO (XI (XI (XI (XO
    (XI (XI (XO (XO (XI (XI (XO (XI (XI (XI (XO (XO (XO (XO (XO (XO (XO (XI
    (XI (XI (XO (XI (XI (XO (XI (XI (XO (XI (XO (XO (XO (XO (XO (XO (XO (XO
    (XI (XI (XO (XO (XI (XI (XI (XO (XO (XO (XO (XO (XI (XO (XO
    XH)))))))))))))))))))))))))))))))))))))))))))))))))))))))))))))))))))));
    qden = (XO (XO (XO (XO (XO (XO (XO (XO (XO (XO (XO (XO (XO (XO (XO (XO
    (XO (XO (XO (XO (XO (XO (XO (XO (XO (XO (XO (XO (XO (XO (XO (XI (XI (XO
    (XI (XO (XI (XI (XO (XO (XO (XO (XO (XO (XO (XI (XI (XO (XI (XO (XI (XO
    (XI (XI (XI (XO (XO (XO (XI (XO (XI (XI
    XH)))))))))))))))))))))))))))))))))))))))))))))))))))))))))))))) } :: ({ qnum =
    (Zpos (XI (XI (XI (XI (XO (XO (XO (XO (XI (XI (XO (XI (XO (XO (XI (XO (XI
    (XI (XO (XI (XO (XI (XO (XO (XO (XO (XO (XI (XI (XI (XI (XO (XI (XO (XO
    (XI (XO (XI (XI (XI (XI (XO (XI (XO (XI (XO (XI (XO (XI (XO (XO (XI (XO
    (XI (XO (XO (XO (XI (XI (XO (XO (XO (XI (XI (XI (XO (XO (XI (XI (XI (XI
    (XI (XO (XI (XO (XO (XO
    XH))))))))))))))))))))))))))))))))))))))))))))))))))))))))))))))))))))))))))))));
    qden = (XO (XO (XO (XO (XO (XO (XO (XO (XO (XO (XO (XO (XO (XO (XO (XO
    (XO (XO (XO (XO (XO (XO (XO (XO (XO (XO (XO (XO (XO (XO (XO (XO (XI (XI
    (XI (XI (XI (XI (XO (XO (XO (XO (XI (XO (XI (XI (XI (XI (XI (XI (XI (XI
    (XI (XO (XO (XI (XO (XI (XO (XI (XI (XI (XO (XI (XI (XO (XO (XO (XI (XI
    XH)))))))))))))))))))))))))))))))))))))))))))))))))))))))))))))))))))))) } :: ({ qnum =
    (Zneg (XI (XO (XO (XO (XO (XO (XI (XI (XO (XI (XI (XO (XI (XO (XO (XI (XO
    (XO (XI (XO (XI (XI (XI (XO (XI (XI (XI (XO (XO (XO (XI (XO (XO (XI (XO
    (XO (XO (XO (XO (XI (XO (XI (XO (XO (XO (XI (XI (XO (XI (XO (XI (XI (XO
    (XO (XI (XI (XI (XI (XI (XO (XI (XI (XI (XO (XO (XO (XO (XI (XI (XI (XO
    (XI (XO (XI (XO (XO (XO (XI
    XH)))))))))))))))))))))))))))))))))))))))))))))))))))))))))))))))))))))))))))))));
    qden = (XO (XO (XO (XO (XO (XO (XO (XO (XO (XO (XO (XO (XO (XO (XO (XO
    (XO (XO (XO (XO (XO (XO (XO (XO (XO (XO (XO (XO (XO (XO (XI (XO (XO (XI
    (XI (XI (XO (XI (XI (XO (XI (XI (XO (XI (XO (XI (XI (XI (XI (XI (XI (XO
    (XI (XO (XO (XI (XO (XI (XI (XO (XO (XO (XO (XO (XI (XI (XI (XO (XO (XO
    (XI
    XH))))))))))))))))))))))))))))))))))))))))))))))))))))))))))))))))))))))) } :: ({ qnum =
    (Zpos (XI (XI (XO (XO (XO (XO (XI (XI (XI (XO (XI (XO (XO (XI (XO (XI (XO
    (XO (XI (XO (XI (XI (XI (XO (XI (XI (XO (XI (XI (XI (XI (XO (XI (XO (XI
    (XO (XI (XI (XI (XO (XI (XI (XO (XO (XO (XI (XO (XI (XO (XO (XI (XI (XO
    (XI (XO (XI (XI (XO (XI (XO (XO (XI (XI (XI (XI (XI (XO (XO (XO (XO (XO
    (XO (XO (XI (XO (XO (XI (XO (XI
    XH))))))))))))))))))))))))))))))))))))))))))))))))))))))))))))))))))))))))))))))));
    qden = (XO (XO (XO (XO (XO (XO (XO (XO (XO (XO (XO (XO (XO (XO (XO (XO
    (XO (XO (XO (XO (XO (XO (XO (XO (XO (XO (XO (XO (XO (XO (XO (XO (XO (XI
    (XO (XI (XO (XO (XI (XO (XO (XI (XO (XO (XI (XO (XO (XO (XI (XI (XO (XO
    (XI (XI (XI (XI (XO (XO (XO (XO (XI (XI (XI (XO (XO (XI (XI (XI (XI (XI
    (XO (XO
    XH)))))))))))))))))))))))))))))))))))))))))))))))))))))))))))))))))))))))) } :: ({ qnum =
    (Zneg (XI (XO (XO (XI (XO (XI (XI (XI (XI (XI (XI (XI (XI (XI (XI (XO (XO
    (XI (XI (XI (XI (XI (XI (XI (XI (XI (XI (XI (XI (XI (XO (XI (XO (XO (XI
    (XO (XI (XO (XI (XI (XO (XO (XO (XO (XO (XI (XI (XO (XO (XI (XO (XO (XI
    (XO (XI (XI (XO (XI (XI (XO (XI (XI (XO (XI (XI (XO (XI (XI (XO (XI (XI
    (XI (XI (XO (XO (XI (XI (XO (XI (XO
    XH)))))))))))))))))))))))))))))))))))))))))))))))))))))))))))))))))))))))))))))))));
    qden = (XO (XO (XO (XO (XO (XO (XO (XO (XO (XO (XO (XO (XO (XO (XO (XO
    (XO (XO (XO (XO (XO (XO (XO (XO (XO (XO (XO (XO (XO (XO (XO (XO (XI (XI
    (XI (XI (XO (XI (XI (XO (XI (XI (XO (XI (XI (XO (XO (XI (XO (XO (XI (XI
    (XO (XI (XI (XO (XI (XO (XO (XI (XO (XI (XO (XI (XI (XO (XI (XI (XI (XO
    (XI (XI
    XH)))))))))))))))))))))))))))))))))))))))))))))))))))))))))))))))))))))))) } :: ({ qnum =
    (Zpos (XI (XI (XO (XO (XO (XO (XI (XI (XI (XO (XI (XO (XO (XI (XO (XI (XO
    (XO (XI (XO (XI (XI (XI (XO (XI (XI (XO (XI (XI (XI (XI (XO (XI (XO (XI
    (XO (XI (XI (XI (XO (XI (XI (XO (XO (XO (XI (XO (XI (XO (XO (XI (XI (XO
    (XI (XO (XI (XI (XO (XI (XO (XO (XI (XI (XI (XI (XI (XO (XO (XO (XO (XO
    (XO (XO (XI (XO (XO (XI (XO (XI
    XH))))))))))))))))))))))))))))))))))))))))))))))))))))))))))))))))))))))))))))))));
    qden = (XO (XO (XO (XO (XO (XO (XO (XO (XO (XO (XO (XO (XO (XO (XO (XO
    (XO (XO (XO (XO (XO (XO (XO (XO (XO (XO (XO (XO (XO (XO (XO (XO (XO (XI
    (XO (XI (XO (XO (XI (XO (XO (XI (XO (XO (XI (XO (XO (XO (XI (XI (XO (XO
    (XI (XI (XI (XI (XO (XO (XO (XO (XI (XI (XI (XO (XO (XI (XI (XI (XI (XI
    (XO (XO
    XH)))))))))))))))))))))))))))))))))))))))))))))))))))))))))))))))))))))))) } :: ({ qnum =
    (Zneg (XI (XO (XO (XO (XO (XO (XI (XI (XO (XI (XI (XO (XI (XO (XO (XI (XO
    (XO (XI (XO (XI (XI (XI (XO (XI (XI (XI (XO (XO (XO (XI (XO (XO (XI (XO
    (XO (XO (XO (XO (XI (XO (XI (XO (XO (XO (XI (XI (XO (XI (XO (XI (XI (XO
    (XO (XI (XI (XI (XI (XI (XO (XI (XI (XI (XO (XO (XO (XO (XI (XI (XI (XO
    (XI (XO (XI (XO (XO (XO (XI
    XH)))))))))))))))))))))))))))))))))))))))))))))))))))))))))))))))))))))))))))))));
    qden = (XO (XO (XO (XO (XO (XO (XO (XO (XO (XO (XO (XO (XO (XO (XO (XO
    (XO (XO (XO (XO (XO (XO (XO (XO (XO (XO (XO (XO (XO (XO (XI (XO (XO (XI
    (XI (XI (XO (XI (XI (XO (XI (XI (XO (XI (XO (XI (XI (XI (XI (XI (XI (XO
    (XI (XO (XO (XI (XO (XI (XI (XO (XO (XO (XO (XO (XI (XI (XI (XO (XO (XO
    (XI
    XH))))))))))))))))))))))))))))))))))))))))))))))))))))))))))))))))))))))) } :: ({ qnum =
    (Zpos (XI (XI (XI (XI (XO (XO (XO (XO (XI (XI (XO (XI (XO (XO (XI (XO (XI
    (XI (XO (XI (XO (XI (XO (XO (XO (XO (XO (XI (XI (XI (XI (XO (XI (XO (XO
    (XI (XO (XI (XI (XI (XI (XO (XI (XO (XI (XO (XI (XO (XI (XO (XO (XI (XO
    (XI (XO (XO (XO (XI (XI (XO (XO (XO (XI (XI (XI (XO (XO (XI (XI (XI (XI
    (XI (XO (XI (XO (XO (XO
    XH))))))))))))))))))))))))))))))))))))))))))))))))))))))))))))))))))))))))))))));
    qden = (XO (XO (XO (XO (XO (XO (XO (XO (XO (XO (XO (XO (XO (XO (XO (XO
    (XO (XO (XO (XO (XO (XO (XO (XO (XO (XO (XO (XO (XO (XO (XO (XO (XI (XI
    (XI (XI (XI (XI (XO (XO (XO (XO (XI (XO (XI (XI (XI (XI (XI (XI (XI (XI
    (XI (XO (XO (XI (XO (XI (XO (XI (XI (XI (XO (XI (XI (XO (XO (XO (XI (XI
    XH)))))))))))))))))))))))))))))))))))))))))))))))))))))))))))))))))))))) } :: ({ qnum =
    (Zneg (XI (XO (XO (XI (XI (XI (XO (XO (XO (XI (XI (XO (XO (XI (XI (XI (XO
    (XI (XI (XO (XO (XI (XI (XO (XI (XI (XI (XO (XO (XO (XO (XO (XO (XO (XI
    (XI (XI (XO (XI (XI (XO (XI (XI (XO (XI (XO (XO (XO (XO (XO (XO (XO (XO
    (XI (XI (XO (XO (XI (XI (XI (XO (XO (XO (XO (XO (XI (XO (XO
    XH)))))))))))))))))))))))))))))))))))))))))))))))))))))))))))))))))))));
    qden = (XO (XO (XO (XO (XO (XO (XO (XO (XO (XO (XO (XO (XO (XO (XO (XO
    (XO (XO (XO (XO (XO (XO (XO (XO (XO (XO (XO (XO (XO (XO (XO (XI (XI (XO
    (XI (XO (XI (XI (XO (XO (XO (XO (XO (XO (XO (XI (XI (XO (XI (XO (XI (XO
    (XI (XI (XI (XO (XO (XO (XI (XO (XI (XI
    XH)))))))))))))))))))))))))))))))))))))))))))))))))))))))))))))) } :: ({ qnum =
    (Zpos (XI (XO (XO (XO (XO (XI (XI (XO (XI (XO (XO (XO (XI (XI (XO (XI (XO
    (XI (XO (XI (XO (XO (XI (XO (XI (XO (XO (XI (XO (XO (XI (XO (XI (XO (XO
    (XO (XI (XO (XO (XI (XI (XI (XI (XI (XO (XI (XI (XI (XI (XO (XI (XO (XI
    (XO (XO (XI (XO (XO (XO (XO (XO (XO (XO (XI (XO (XO (XI (XO (XI (XO (XO
    (XO (XO (XI (XO
    XH))))))))))))))))))))))))))))))))))))))))))))))))))))))))))))))))))))))))))));
    qden = (XO (XO (XO (XO (XO (XO (XO (XO (XO (XO (XO (XO (XO (XO (XO (XO
    (XO (XO (XO (XO (XO (XO (XO (XO (XO (XO (XO (XO (XO (XO (XO (XO (XI (XO
    (XI (XO (XO (XI (XO (XO (XI (XO (XO (XI (XO (XO (XO (XI (XI (XO (XO (XI
    (XI (XI (XI (XO (XO (XO (XO (XI (XI (XI (XO (XO (XI (XI (XI (XI (XI (XO
    (XO
    XH))))))))))))))))))))))))))))))))))))))))))))))))))))))))))))))))))))))) } :: ({ qnum =
    (Zneg (XI (XI (XO (XI (XO (XI (XO (XI (XO (XI (XI (XI (XO (XI (XO (XO (XO
    (XI (XO (XO (XO (XO (XO (XI (XO (XO (XI (XI (XO (XO (XI (XI (XI (XI (XI
    (XO (XI (XO (XO (XI (XO (XO (XI (XI (XI (XI (XO (XO (XO (XO (XI (XO (XO
    (XO (XI (XI (XO (XI (XI (XO (XI (XO (XO (XO (XO (XO (XI (XI (XO (XO (XI
    XH))))))))))))))))))))))))))))))))))))))))))))))))))))))))))))))))))))))));
    qden = (XO (XO (XO (XO (XO (XO (XO (XO (XO (XO (XO (XO (XO (XO (XO (XO
    (XO (XO (XO (XO (XO (XO (XO (XO (XO (XO (XO (XO (XO (XO (XI (XO (XI (XO
    (XO (XI (XO (XO (XI (XO (XO (XI (XO (XO (XO (XI (XI (XO (XO (XI (XI (XI
    (XI (XO (XO (XO (XO (XI (XI (XI (XO (XO (XI (XI (XI (XI (XI (XO (XO
    XH))))))))))))))))))))))))))))))))))))))))))))))))))))))))))))))))))))) } :: ({ qnum =
    (Zpos (XI (XO (XO (XO (XO (XO (XO (XO (XI (XI (XO (XI (XO (XI (XO (XI (XI
    (XI (XI (XI (XI (XI (XI (XI (XO (XI (XO (XI (XI (XO (XO (XO (XI (XI (XI
    (XO (XO (XI (XO (XO (XO (XI (XO (XI (XO (XO (XI (XO (XI (XI (XO (XI (XO
    (XI (XO (XI (XI (XO (XO (XO (XI (XI (XO (XI (XO (XO (XO (XO (XO (XO (XO
    (XI (XO (XO (XO (XO
    XH)))))))))))))))))))))))))))))))))))))))))))))))))))))))))))))))))))))))))))));
    qden = (XO (XO (XO (XO (XO (XO (XO (XO (XO (XO (XO (XO (XO (XO (XO (XO
    (XO (XO (XO (XO (XO (XO (XO (XO (XO (XO (XO (XO (XO (XO (XO (XO (XO (XO
    (XI (XO (XO (XI (XI (XI (XO (XI (XI (XO (XI (XI (XO (XI (XO (XI (XI (XI
    (XI (XI (XI (XO (XI (XO (XO (XI (XO (XI (XI (XO (XO (XO (XO (XO (XI (XI
    (XI (XO (XO (XO (XI
    XH))))))))))))))))))))))))))))))))))))))))))))))))))))))))))))))))))))))))))) } :: ({ qnum =
    (Zneg (XI (XO (XI (XO (XO (XO (XI (XI (XO (XI (XI (XO (XI (XO (XO (XO (XI
    (XI (XI (XO (XI (XO (XI (XI (XI (XI (XO (XI (XO (XO (XO (XO (XO (XO (XO
    (XO (XO (XI (XI (XI (XI (XI (XO (XO (XO (XO (XI (XI (XI (XI (XO (XO (XO
    (XI (XO (XI (XO (XO (XI (XO (XI (XO (XO (XI (XO (XO (XI (XI (XI (XO (XO
    (XO
    XH)))))))))))))))))))))))))))))))))))))))))))))))))))))))))))))))))))))))));
    qden = (XO (XO (XO (XO (XO (XO (XO (XO (XO (XO (XO (XO (XO (XO (XO (XO
    (XO (XO (XO (XO (XO (XO (XO (XO (XO (XO (XO (XO (XO (XO (XO (XO (XO (XI
    (XO (XO (XI (XI (XI (XO (XI (XI (XO (XI (XI (XO (XI (XO (XI (XI (XI (XI
    (XI (XI (XO (XI (XO (XO (XI (XO (XI (XI (XO (XO (XO (XO (XO (XI (XI (XI
    (XO (XO (XO (XI
    XH)))))))))))))))))))))))))))))))))))))))))))))))))))))))))))))))))))))))))) } :: ({ qnum =
    (Zpos (XI (XI (XI (XI (XI (XI (XI (XO (XO (XO (XI (XI (XO (XI (XO (XI (XI
    (XO (XO (XO (XI (XI (XO (XI (XO (XO (XO (XO (XI (XI (XI (XI (XI (XI (XI
    (XI (XI (XI (XI (XI (XO (XO (XO (XI (XO (XI (XI (XI (XI (XO (XO (XO (XO
    (XI (XO (XI (XO (XO (XI (XI (XO (XI (XI (XO (XO (XO (XO (XI (XI (XO (XO
    XH))))))))))))))))))))))))))))))))))))))))))))))))))))))))))))))))))))))));
    qden = (XO (XO (XO (XO (XO (XO (XO (XO (XO (XO (XO (XO (XO (XO (XO (XO
    (XO (XO (XO (XO (XO (XO (XO (XO (XO (XO (XO (XO (XO (XO (XO (XO (XO (XO
    (XI (XI (XI (XI (XO (XI (XI (XO (XI (XI (XO (XI (XI (XO (XO (XI (XO (XO
    (XI (XI (XO (XI (XI (XO (XI (XO (XO (XI (XO (XI (XO (XI (XI (XO (XI (XI
    (XI (XO (XI (XI
    XH)))))))))))))))))))))))))))))))))))))))))))))))))))))))))))))))))))))))))) } :: []))))))))))))))))))) :: [])))))))))))))))))))

(** val nc_w : nat -> q list **)

let nc_w n =
  match nth_error nc_table n with
  | Some w -> w
  | None -> nc_weights n

(** val seg_eq : seg -> seg -> bool **)

let seg_eq a b =
  (&&) (Nat.eqb (length a) (length b))
    (forallb (fun pq -> pt_eq (fst pq) (snd pq)) (combine a b))

(** val out01 : q -> bool **)

let out01 t =
  (||) (qlt_bool t { qnum = Z0; qden = XH })
    (qlt_bool { qnum = (Zpos XH); qden = XH } t)

(** val lines : seg -> seg -> (q * q) option **)

let lines sa sb =
  match sa with
  | [] -> None
  | a0 :: l ->
    (match l with
     | [] -> None
     | a1 :: l0 ->
       (match l0 with
        | [] ->
          (match sb with
           | [] -> None
           | b0 :: l1 ->
             (match l1 with
              | [] -> None
              | b1 :: l2 ->
                (match l2 with
                 | [] ->
                   let v0 = psub a1 a0 in
                   let v1 = psub b1 b0 in
                   let d = psub b0 a0 in
                   let den = cross v0 v1 in
                   if qeq_bool den { qnum = Z0; qden = XH }
                   then None
                   else let p0 = qdiv (cross d v1) den in
                        let p1 = qdiv (cross d v0) den in
                        if out01 p0
                        then None
                        else if out01 p1
                             then None
                             else Some ((qred p0), (qred p1))
                 | _ :: _ -> None)))
        | _ :: _ -> None))

type inter =
| INone
| IEqual
| IPairs of (q * q) list

(** val seg_and : seg -> seg -> inter res **)

let seg_and sa sb =
  match box_and (seg_box sa) (seg_box sb) with
  | Some _ ->
    if seg_eq sa sb
    then Ok IEqual
    else if (&&) (Nat.eqb (degree sa) (S O)) (Nat.eqb (degree sb) (S O))
         then (match lines sa sb with
               | Some uv -> Ok (IPairs (uv :: []))
               | None -> Ok IEqual)
         else Err EOther
  | None -> Ok INone

(** val round60 : q -> q **)

let round60 q0 =
  qred { qnum =
    (qfloor
      (qmult q0 { qnum = (Zpos (XO (XO (XO (XO (XO (XO (XO (XO (XO (XO (XO
        (XO (XO (XO (XO (XO (XO (XO (XO (XO (XO (XO (XO (XO (XO (XO (XO (XO
        (XO (XO (XO (XO (XO (XO (XO (XO (XO (XO (XO (XO (XO (XO (XO (XO (XO
        (XO (XO (XO (XO (XO (XO (XO (XO (XO (XO (XO (XO (XO (XO (XO
        XH)))))))))))))))))))))))))))))))))))))))))))))))))))))))))))));
        qden = XH })); qden = (XO (XO (XO (XO (XO (XO (XO (XO (XO (XO (XO (XO
    (XO (XO (XO (XO (XO (XO (XO (XO (XO (XO (XO (XO (XO (XO (XO (XO (XO (XO
    (XO (XO (XO (XO (XO (XO (XO (XO (XO (XO (XO (XO (XO (XO (XO (XO (XO (XO
    (XO (XO (XO (XO (XO (XO (XO (XO (XO (XO (XO (XO
    XH)))))))))))))))))))))))))))))))))))))))))))))))))))))))))))) }

(** val nround : nat -> q -> q **)

let nround deg q0 =
  if Nat.leb deg (S O) then qred q0 else round60 q0

(** val newton_step : seg -> seg -> seg -> point -> q -> q **)

let newton_step s ds dds p u =
  let c = psub (eval s u) p in
  let d = eval ds u in
  let f = inner d c in
  let df0 = qplus (inner (eval dds u) c) (inner d d) in
  let df = if qlt_bool tol6 (qabs' df0) then df0 else tol6 in
  qclamp01 (nround (degree s) (qminus u (qdiv f df)))

(** val newton_rounds :
    nat -> seg -> seg -> seg -> point -> q list -> q list **)

let rec newton_rounds n s ds dds p us =
  match n with
  | O -> us
  | S k ->
    let us' = dedup qeq_bool (map (newton_step s ds dds p) us) in
    (match us' with
     | [] -> newton_rounds k s ds dds p us'
     | _ :: l ->
       (match l with
        | [] -> us'
        | _ :: _ -> newton_rounds k s ds dds p us'))

(** val project : seg -> point -> q list **)

let project s p =
  let ds = derivate s in
  newton_rounds (S (S (S (S (S (S (S (S (S (S O)))))))))) s ds (derivate ds)
    p (closed_linspace (add (S (S O)) (degree s)))

(** val dist2 : seg -> point -> q -> q **)

let dist2 s p u =
  norm2 (psub (eval s u) p)

(** val tol6sq : q **)

let tol6sq =
  qmult tol6 tol6

(** val on_seg : seg -> point -> bool **)

let on_seg s p =
  (&&) (box_contains (seg_box s) p)
    (existsb (fun u -> qlt_bool (dist2 s p u) tol6sq) (project s p))

(** val chord_pts : seg -> point list **)

let chord_pts s =
  map (eval s) (closed_linspace (length s))

(** val orient : point -> point -> point -> q **)

let orient a b p =
  cross (psub b a) (psub p a)

(** val cr : point -> point -> point -> z **)

let cr a b p =
  if (&&) (qle_bool (px a) (px p)) (qlt_bool (px p) (px b))
  then if qlt_bool (orient a b p) { qnum = Z0; qden = XH }
       then Zneg XH
       else Z0
  else if (&&) (qle_bool (px b) (px p)) (qlt_bool (px p) (px a))
       then if qlt_bool { qnum = Z0; qden = XH } (orient a b p)
            then Zpos XH
            else Z0
       else Z0

(** val seg_wn : seg -> point -> z **)

let seg_wn s p =
  zsum (map (fun ab -> cr (fst ab) (snd ab) p) (pairs_of (chord_pts s)))

(** val vertical : seg -> nat -> nat -> q **)

let vertical s ex ey =
  let n = add (add (add (S (S (S O))) ex) ey) (degree s) in
  let ds = derivate s in
  qred
    (qsum
      (map2 (fun w t ->
        let p = eval s t in
        qmult w
          (qmult (qmult (qpow (px p) ex) (qpow (py p) ey)) (py (eval ds t))))
        (nc_w n) (open_linspace n)))

(** val fwd_diff : nat -> seg -> seg **)

let rec fwd_diff n s =
  match n with
  | O -> s
  | S k -> fwd_diff k (map (fun ab -> psub (snd ab) (fst ab)) (pairs_of s))

(** val reducible : seg -> bool **)

let reducible s =
  (&&) (Nat.leb (S (S O)) (degree s))
    (forallb (fun p -> peqb p pzero) (fwd_diff (degree s) s))

(** val reduce_from : nat -> nat -> point -> seg -> seg **)

let rec reduce_from d i prev = function
| [] -> []
| p :: t ->
  (match t with
   | [] -> []
   | _ :: _ ->
     let q0 =
       pscale (qinv (nQ (sub d i)))
         (psub (pscale (nQ d) p) (pscale (nQ i) prev))
     in
     q0 :: (reduce_from d (S i) q0 t))

(** val reduce_once : seg -> seg **)

let reduce_once s = match s with
| [] -> []
| p0 :: t ->
  map pred_
    (app (removelast (p0 :: (reduce_from (degree s) (S O) p0 t)))
      ((last_pt s) :: []))

(** val seg_clean_fuel : nat -> seg -> seg **)

let rec seg_clean_fuel f s =
  match f with
  | O -> s
  | S k -> if reducible s then seg_clean_fuel k (reduce_once s) else s

(** val seg_clean : seg -> seg **)

let seg_clean s =
  seg_clean_fuel (length s) s

(** val set_segments : jordan -> jordan **)

let set_segments j =
  map seg_clean j

(** val from_segments : seg list -> jordan res **)

let from_segments js = match js with
| [] -> Ok []
| s0 :: _ ->
  let nexts = map first_pt (app (tl js) (s0 :: [])) in
  bind
    (assert_
      (forallb (fun sn -> pt_eq (last_pt (fst sn)) (snd sn))
        (combine js nexts))) (fun _ -> Ok
    (set_segments (map2 (fun s n -> set_last n s) js nexts)))

(** val from_vertices : point list -> jordan res **)

let from_vertices vs = match vs with
| [] -> Ok []
| v0 :: _ ->
  from_segments
    (map (fun ab -> (fst ab) :: ((snd ab) :: []))
      (pairs_of (app vs (v0 :: []))))

(** val from_ctrlpoints : seg list -> jordan res **)

let from_ctrlpoints =
  from_segments

(** val vertices : jordan -> point list **)

let vertices j =
  concat (map removelast j)

(** val invert : jordan -> jordan **)

let invert j =
  set_segments (rev (map rev j))

(** val jordan_box : jordan -> box **)

let jordan_box = function
| [] ->
  ((({ qnum = Z0; qden = XH }, { qnum = Z0; qden = XH }), { qnum = Z0; qden =
    XH }), { qnum = Z0; qden = XH })
| s :: t -> fold_left (fun b s' -> box_or b (seg_box s')) t (seg_box s)

(** val jordan_has : jordan -> point -> bool **)

let jordan_has j p =
  (&&) (box_contains (jordan_box j) p) (existsb (fun s -> on_seg s p) j)

(** val points : jordan -> nat -> point list **)

let points j n =
  concat
    (map (fun s ->
      map (fun k -> evalr s (qdiv (nQ k) (nQ (S n)))) (seq O (S n))) j)

(** val near01 : q -> bool **)

let near01 u =
  (||) (qlt_bool (qabs' u) tol6)
    (qlt_bool (qabs' (qminus u { qnum = (Zpos XH); qden = XH })) tol6)

(** val pair_le : (nat * q) -> (nat * q) -> bool **)

let pair_le a b =
  (||) (Nat.ltb (fst a) (fst b))
    ((&&) (Nat.eqb (fst a) (fst b)) (qle_bool (snd a) (snd b)))

(** val has_dup : q list -> bool **)

let rec has_dup = function
| [] -> false
| a :: t ->
  (match t with
   | [] -> false
   | b :: _ -> (||) (qeq_bool a b) (has_dup t))

(** val split_segment : seg -> q list -> seg list res **)

let split_segment s nodes =
  if has_dup nodes
  then Err EIndex
  else Ok (map seg_clean (split_many nodes s))

(** val split : jordan -> nat list -> q list -> jordan res **)

let split j indexs nodes =
  bind (assert_ (forallb (fun i -> Nat.ltb i (length j)) indexs)) (fun _ ->
    bind (assert_ (forallb (fun u -> negb (out01 u)) nodes)) (fun _ ->
      bind (assert_ (Nat.eqb (length indexs) (length nodes))) (fun _ ->
        let pairs =
          filter (fun iu -> negb (near01 (snd iu)))
            (sort_by pair_le (combine indexs nodes))
        in
        bind
          (mapM (fun is_ ->
            let (i, s) = is_ in
            let ns = map snd (filter (fun iu -> Nat.eqb (fst iu) i) pairs) in
            (match ns with
             | [] -> Ok (s :: [])
             | _ :: _ -> split_segment s ns)) (combine (seq O (length j)) j))
          (fun pieces -> Ok (set_segments (concat pieces))))))

type unite_res =
| UYes of seg
| UNo
| URaise of ekind

(** val unite : seg -> seg -> unite_res **)

let unite a b =
  if negb (Nat.eqb (degree a) (degree b))
  then URaise EAssert
  else if negb (pt_eq (last_pt a) (first_pt b))
       then URaise EAssert
       else let dapt = psub (last_pt a) (last_pt (removelast a)) in
            let dbpt = psub (nth (S O) b pzero) (first_pt b) in
            if qlt_bool tol6 (qabs' (cross dapt dbpt))
            then UNo
            else let dsum = padd dapt dbpt in
                 let den = inner dsum dsum in
                 if qeq_bool den { qnum = Z0; qden = XH }
                 then URaise EZeroDiv
                 else let node = qdiv (inner dapt dsum) den in
                      if (||) (qle_bool node { qnum = Z0; qden = XH })
                           (qle_bool { qnum = (Zpos XH); qden = XH } node)
                      then URaise EOther
                      else let c = fst (split_at (qinv node) a) in
                           let b' = snd (split_at node c) in
                           if forallb (fun pq -> peqb (fst pq) (snd pq))
                                (combine b' b)
                           then UYes
                                  (map pred_
                                    (set_last (last_pt b)
                                      (set_first (first_pt a) c)))
                           else UNo

(** val remove_nth : nat -> 'a1 list -> 'a1 list **)

let rec remove_nth n l =
  match n with
  | O -> (match l with
          | [] -> []
          | _ :: t -> t)
  | S k -> (match l with
            | [] -> []
            | h :: t -> h :: (remove_nth k t))

(** val clean_scan : nat -> nat -> seg list -> seg list option res **)

let rec clean_scan n i segs =
  match n with
  | O -> Ok None
  | S k ->
    let len = length segs in
    let j = Nat.modulo (add i (S O)) len in
    (match unite (nth i segs []) (nth j segs []) with
     | UYes m -> Ok (Some (remove_nth j (set_nth i m segs)))
     | UNo -> clean_scan k (S i) segs
     | URaise e -> Err e)

(** val clean_loop : nat -> seg list -> seg list res **)

let rec clean_loop fuel segs =
  match fuel with
  | O -> NoFuel
  | S f ->
    (match segs with
     | [] -> Ok []
     | _ :: _ ->
       bind (clean_scan (length segs) O segs) (fun r ->
         match r with
         | Some segs' -> clean_loop f segs'
         | None -> Ok segs))

(** val clean : jordan -> jordan res **)

let clean j =
  let segs = map seg_clean j in
  bind (clean_loop (S (length segs)) segs) (fun segs' -> Ok
    (set_segments segs'))

type irow = (nat * nat) * (q * q) option

(** val irow_le : irow -> irow -> bool **)

let irow_le r s =
  let (p, o) = r in
  let (a, b) = p in
  let (p0, o') = s in
  let (a', b') = p0 in
  (||) (Nat.ltb a a')
    ((&&) (Nat.eqb a a')
      ((||) (Nat.ltb b b')
        ((&&) (Nat.eqb b b')
          (match o with
           | Some p1 ->
             let (u, v) = p1 in
             (match o' with
              | Some p2 ->
                let (u', v') = p2 in
                (||) (qlt_bool u u') ((&&) (qeq_bool u u') (qle_bool v v'))
              | None -> true)
           | None -> true))))

(** val irow_eqb : irow -> irow -> bool **)

let irow_eqb r s =
  (&&) (irow_le r s) (irow_le s r)

(** val raw_intersection : jordan -> jordan -> irow list res **)

let raw_intersection ja jb =
  bind
    (mapM (fun ia ->
      let (a, sa) = ia in
      bind
        (mapM (fun ib ->
          let (b, sb) = ib in
          bind (seg_and sa sb) (fun r -> Ok
            (match r with
             | INone -> []
             | IEqual -> ((a, b), None) :: []
             | IPairs l -> map (fun uv -> ((a, b), (Some uv))) l)))
          (combine (seq O (length jb)) jb)) (fun per_b -> Ok (concat per_b)))
      (combine (seq O (length ja)) ja)) (fun rows -> Ok
    (dedup irow_eqb (concat rows)))

(** val inside01 : q -> bool **)

let inside01 u =
  (&&) (qlt_bool { qnum = Z0; qden = XH } u)
    (qlt_bool u { qnum = (Zpos XH); qden = XH })

(** val intersection : jordan -> jordan -> bool -> bool -> irow list res **)

let intersection ja jb equal_beziers end_points =
  bind (raw_intersection ja jb) (fun rows ->
    let rows1 =
      if equal_beziers
      then rows
      else filter (fun r -> match snd r with
                            | Some _ -> true
                            | None -> false) rows
    in
    let rows2 =
      if end_points
      then rows1
      else filter (fun r ->
             match snd r with
             | Some y -> let (u, v) = y in (||) (inside01 u) (inside01 v)
             | None -> true) rows1
    in
    Ok (sort_by irow_le rows2))

(** val jordan_and : jordan -> jordan -> irow list res **)

let jordan_and ja jb =
  intersection ja jb false false

(** val jordan_vertical : jordan -> nat -> nat -> q **)

let jordan_vertical j ex ey =
  qred (qsum (map (fun s -> vertical s ex ey) j))

(** val jordan_area : jordan -> q **)

let jordan_area j =
  jordan_vertical j (S O) O

(** val jordan_pos : jordan -> bool **)

let jordan_pos j =
  qlt_bool { qnum = Z0; qden = XH } (jordan_area j)

(** val jordan_wn2 : jordan -> point -> z **)

let jordan_wn2 j p =
  if (&&) (box_contains (jordan_box j) p) (existsb (fun s -> on_seg s p) j)
  then if jordan_pos j then Zpos XH else Zneg XH
  else Z.mul (Zpos (XO XH)) (zsum (map (fun s -> seg_wn s p) j))

(** val jordan_eq : jordan -> jordan -> bool res **)

let jordan_eq self other =
  if negb (forallb (jordan_has self) (points other (S O)))
  then Ok false
  else bind (clean self) (fun sc ->
         bind (clean other) (fun oc ->
           if negb (Nat.eqb (length sc) (length oc))
           then Ok false
           else (match oc with
                 | [] -> Err EIndex
                 | seg1 :: _ ->
                   (match index_where (fun s0 -> seg_eq s0 seg1) sc with
                    | Some index ->
                      let nsegments = length self in
                      let rec go i = function
                      | [] -> Ok true
                      | s1 :: t ->
                        let k = Nat.modulo (add i index) nsegments in
                        (match nth_error sc k with
                         | Some s0 ->
                           if seg_eq s0 s1 then go (S i) t else Ok false
                         | None -> Err EIndex)
                      in go O oc
                    | None -> Ok false))))

type comp =
| CS of jordan
| CC of jordan list

type shape =
| SEmpty
| SWhole
| SC of comp
| SD of comp list

(** val comp_jordans : comp -> jordan list **)

let comp_jordans = function
| CS j -> j :: []
| CC js -> js

(** val jordans : shape -> jordan list **)

let jordans = function
| SC c -> comp_jordans c
| SD cs -> concat (map comp_jordans cs)
| _ -> []

(** val comp_area : comp -> q **)

let comp_area c =
  qred (qsum (map jordan_area (comp_jordans c)))

(** val shape_area : shape -> q **)

let shape_area s =
  qred (qsum (map jordan_area (jordans s)))

(** val comp_with : comp -> jordan list -> comp * jordan list **)

let comp_with c js =
  match c with
  | CS _ -> ((CS (hd [] js)), (tl js))
  | CC old -> ((CC (firstn (length old) js)), (skipn (length old) js))

(** val comps_with : comp list -> jordan list -> comp list **)

let rec comps_with cs js =
  match cs with
  | [] -> []
  | c :: t -> let (c', rest) = comp_with c js in c' :: (comps_with t rest)

(** val with_jordans : shape -> jordan list -> shape **)

let with_jordans s js =
  match s with
  | SC c -> SC (fst (comp_with c js))
  | SD cs -> SD (comps_with cs js)
  | x -> x

(** val simple_has_point : jordan -> point -> bool -> bool **)

let simple_has_point j p boundary =
  let w = jordan_wn2 j p in
  if jordan_pos j
  then if boundary then Z.ltb Z0 w else Z.eqb w (Zpos (XO XH))
  else if boundary then Z.ltb (Zneg (XO XH)) w else Z.eqb w Z0

(** val comp_has_point : comp -> point -> bool -> bool **)

let comp_has_point c p b =
  match c with
  | CS j -> simple_has_point j p b
  | CC js -> forallb (fun j -> simple_has_point j p b) js

(** val contains_point : shape -> point -> bool -> bool **)

let contains_point s p b =
  match s with
  | SEmpty -> false
  | SWhole -> true
  | SC c -> comp_has_point c p b
  | SD cs -> existsb (fun c -> comp_has_point c p b) cs

(** val mids_between : q list -> q list **)

let mids_between us =
  map (fun ab ->
    qdiv (qplus (fst ab) (snd ab)) { qnum = (Zpos (XO XH)); qden = XH })
    (pairs_of us)

(** val qle_b : q -> q -> bool **)

let qle_b =
  qle_bool

(** val simple_has_jordan : jordan -> jordan -> bool -> bool res **)

let simple_has_jordan self j boundary =
  if negb (forallb (fun p -> simple_has_point self p boundary) (points j O))
  then Ok false
  else bind (jordan_and j self) (fun inters -> Ok
         (forallb (fun a_s ->
           let (a, s) = a_s in
           let us =
             concat
               (map (fun r ->
                 let (p, o) = r in
                 let (a', _) = p in
                 (match o with
                  | Some p0 ->
                    let (u, _) = p0 in if Nat.eqb a' a then u :: [] else []
                  | None -> [])) inters)
           in
           let us0 = sort_by qle_b (dedup qeq_bool us) in
           forallb (fun u -> simple_has_point self (eval s u) boundary)
             (mids_between us0)) (combine (seq O (length j)) j)))

(** val comp_has_jordan : comp -> jordan -> bool -> bool res **)

let comp_has_jordan c j b =
  match c with
  | CS self -> simple_has_jordan self j b
  | CC js -> forallM (fun self -> simple_has_jordan self j b) js

(** val contains_jordan : shape -> jordan -> bool -> bool res **)

let contains_jordan s j b =
  match s with
  | SEmpty -> Ok false
  | SWhole -> Ok true
  | SC c -> comp_has_jordan c j b
  | SD cs -> existsM (fun c -> comp_has_jordan c j b) cs

(** val simple_has_simple : jordan -> jordan -> bool res **)

let simple_has_simple self other =
  let areaA = jordan_area other in
  let areaB = jordan_area self in
  if (&&) (qlt_bool areaA { qnum = Z0; qden = XH })
       (qlt_bool { qnum = Z0; qden = XH } areaB)
  then Ok false
  else (match box_and (jordan_box self) (jordan_box other) with
        | Some _ ->
          if (&&) (qlt_bool { qnum = Z0; qden = XH } areaA)
               (qlt_bool areaB { qnum = Z0; qden = XH })
          then bind (simple_has_jordan self other true) (fun x ->
                 if x
                 then bind (simple_has_jordan other self true) (fun y -> Ok
                        (negb y))
                 else Ok false)
          else if qlt_bool areaB areaA
               then Ok false
               else bind (simple_has_jordan self other true) (fun x -> Ok x)
        | None ->
          Ok
            ((&&) (qlt_bool { qnum = Z0; qden = XH } areaA)
              (qlt_bool areaB { qnum = Z0; qden = XH })))

(** val simple_has_connected : jordan -> jordan list -> bool res **)

let simple_has_connected self subs =
  let nself = invert self in
  existsM (fun sub0 -> simple_has_simple (invert sub0) nself) subs

(** val simple_has_comp : jordan -> comp -> bool res **)

let simple_has_comp self = function
| CS o -> simple_has_simple self o
| CC subs -> simple_has_connected self subs

(** val comp_has_comp : comp -> comp -> bool res **)

let comp_has_comp c o =
  match c with
  | CS self -> simple_has_comp self o
  | CC js -> forallM (fun self -> simple_has_comp self o) js

(** val comp_has_disjoint : comp -> comp list -> bool res **)

let comp_has_disjoint c os =
  match c with
  | CS self -> forallM (fun o -> simple_has_comp self o) os
  | CC js ->
    forallM (fun self -> forallM (fun o -> simple_has_comp self o) os) js

(** val contains_shape : shape -> shape -> bool res **)

let contains_shape a b =
  match a with
  | SEmpty -> (match b with
               | SEmpty -> Ok true
               | _ -> Ok false)
  | SWhole -> Ok true
  | SC c ->
    (match b with
     | SEmpty -> Ok true
     | SWhole -> Ok false
     | SC o -> comp_has_comp c o
     | SD os -> comp_has_disjoint c os)
  | SD cs ->
    (match b with
     | SEmpty -> Ok true
     | SWhole -> Ok false
     | SC o -> existsM (fun c -> comp_has_comp c o) cs
     | SD os -> forallM (fun o -> existsM (fun c -> comp_has_comp c o) cs) os)

(** val argmax_abs : q list -> nat **)

let argmax_abs areas =
  let go =
    let rec go i best bv = function
    | [] -> best
    | a :: t ->
      if qlt_bool bv (qabs' a)
      then go (S i) i (qabs' a) t
      else go (S i) best bv t
    in go
  in
  (match areas with
   | [] -> O
   | a :: t -> go (S O) O (qabs' a) t)

(** val area_ge : jordan -> jordan -> bool **)

let area_ge a b =
  qle_bool (jordan_area b) (jordan_area a)

(** val grow_group :
    nat -> jordan list -> jordan list -> jordan list -> (jordan list * jordan
    list) res **)

let rec grow_group fuel connected simples externals =
  match fuel with
  | O -> NoFuel
  | S f ->
    (match simples with
     | [] -> Ok (connected, externals)
     | _ :: _ ->
       let idx = argmax_abs (map jordan_area simples) in
       let connected' = app connected ((nth idx simples []) :: []) in
       let rest = remove_nth idx simples in
       bind
         (let rec part = function
          | [] -> Ok ([], [])
          | s :: t ->
            bind
              (existsM (fun c ->
                bind (simple_has_jordan c s true) (fun x ->
                  if negb x
                  then Ok true
                  else bind (simple_has_jordan s c true) (fun y -> Ok
                         (negb y)))) connected') (fun ext ->
              bind (part t) (fun r ->
                let (ins, exts) = r in
                if ext then Ok (ins, (s :: exts)) else Ok ((s :: ins), exts)))
          in part rest) (fun split2 ->
         let (internal, exts) = split2 in
         grow_group f connected' internal (app externals exts)))

(** val divide_connecteds : nat -> jordan list -> comp list res **)

let rec divide_connecteds fuel simples =
  match fuel with
  | O -> NoFuel
  | S f ->
    (match simples with
     | [] -> Ok []
     | _ :: _ ->
       bind (grow_group (S (length simples)) [] simples []) (fun r ->
         let (connected, externals) = r in
         let c =
           match connected with
           | [] -> CC (sort_by area_ge connected)
           | j :: l ->
             (match l with
              | [] -> CS j
              | _ :: _ -> CC (sort_by area_ge connected))
         in
         bind (divide_connecteds f externals) (fun rest -> Ok (c :: rest))))

(** val comp_ge : comp -> comp -> bool **)

let comp_ge a b =
  qle_bool (comp_area b) (comp_area a)

(** val disjoint_of : comp list -> shape **)

let disjoint_of cs = match cs with
| [] -> SEmpty
| c :: l -> (match l with
             | [] -> SC c
             | _ :: _ -> SD (sort_by comp_ge cs))

(** val shape_from_jordans : jordan list -> shape res **)

let shape_from_jordans js = match js with
| [] -> Err EAssert
| j :: l ->
  (match l with
   | [] -> Ok (SC (CS j))
   | _ :: _ ->
     bind (divide_connecteds (S (length js)) js) (fun cs ->
       match cs with
       | [] -> Ok (disjoint_of cs)
       | c :: l0 ->
         (match l0 with
          | [] -> Ok (SC c)
          | _ :: _ -> Ok (disjoint_of cs))))

(** val copy_shape : shape -> shape res **)

let copy_shape s = match s with
| SEmpty -> Ok SEmpty
| SWhole -> Ok SWhole
| _ -> shape_from_jordans (jordans s)

(** val op_not : shape -> shape res **)

let op_not s = match s with
| SEmpty -> Ok SWhole
| SWhole -> Ok SEmpty
| SC c ->
  (match c with
   | CS j -> Ok (SC (CS (invert j)))
   | CC js -> Ok (disjoint_of (map (fun j -> CS (invert j)) js)))
| SD _ -> shape_from_jordans (map invert (jordans s))

(** val nat_q_le : (nat * q) -> (nat * q) -> bool **)

let nat_q_le =
  pair_le

(** val nq_eqb : (nat * q) -> (nat * q) -> bool **)

let nq_eqb a b =
  (&&) (Nat.eqb (fst a) (fst b)) (qeq_bool (snd a) (snd b))

(** val split_two_jordans : jordan -> jordan -> (jordan * jordan) res **)

let split_two_jordans ja jb =
  match box_and (jordan_box ja) (jordan_box jb) with
  | Some _ ->
    bind (jordan_and ja jb) (fun inters ->
      let pa =
        concat
          (map (fun r ->
            let (p, o) = r in
            let (a, _) = p in
            (match o with
             | Some p0 -> let (u, _) = p0 in (a, u) :: []
             | None -> [])) inters)
      in
      let pb =
        concat
          (map (fun r ->
            let (p, o) = r in
            let (_, b) = p in
            (match o with
             | Some p0 -> let (_, v) = p0 in (b, v) :: []
             | None -> [])) inters)
      in
      let pa0 = sort_by nat_q_le (dedup nq_eqb pa) in
      let pb0 = sort_by nat_q_le (dedup nq_eqb pb) in
      bind (split ja (map fst pa0) (map snd pa0)) (fun ja' ->
        bind (split jb (map fst pb0) (map snd pb0)) (fun jb' -> Ok (ja', jb'))))
  | None -> Ok (ja, jb)

(** val split_one_against :
    jordan -> jordan list -> (jordan * jordan list) res **)

let rec split_one_against ja = function
| [] -> Ok (ja, [])
| jb :: t ->
  bind (split_two_jordans ja jb) (fun r ->
    let (ja', jb') = r in
    bind (split_one_against ja' t) (fun r2 ->
      let (ja'', t') = r2 in Ok (ja'', (jb' :: t'))))

(** val split_all :
    jordan list -> jordan list -> (jordan list * jordan list) res **)

let rec split_all jas jbs =
  match jas with
  | [] -> Ok ([], jbs)
  | ja :: t ->
    bind (split_one_against ja jbs) (fun r ->
      let (ja', jbs') = r in
      bind (split_all t jbs') (fun r2 ->
        let (t', jbs'') = r2 in Ok ((ja' :: t'), jbs'')))

(** val midpoints_one_shape :
    shape -> shape -> bool -> bool -> (nat * nat) list **)

let midpoints_one_shape a b closed inside =
  concat
    (map (fun ij ->
      let (i, j) = ij in
      concat
        (map (fun ks ->
          let (k, s) = ks in
          let mid = evalr s qhalf in
          if eqb (contains_point b mid closed) inside
          then (i, k) :: []
          else []) (combine (seq O (length j)) j)))
      (combine (seq O (length (jordans a))) (jordans a)))

(** val midpoints_shapes :
    shape -> shape -> bool -> bool -> (nat * nat) list **)

let midpoints_shapes a b closed inside =
  let na = length (jordans a) in
  app (midpoints_one_shape a b closed inside)
    (map (fun ik -> ((add na (fst ik)), (snd ik)))
      (midpoints_one_shape b a closed inside))

(** val nn_eqb : (nat * nat) -> (nat * nat) -> bool **)

let nn_eqb a b =
  (&&) (Nat.eqb (fst a) (fst b)) (Nat.eqb (snd a) (snd b))

(** val pursue_path :
    nat -> nat -> nat -> jordan list -> (nat * nat) list -> (nat * nat) list
    res **)

let rec pursue_path fuel ij is_ js matrix =
  match fuel with
  | O -> NoFuel
  | S f ->
    let segs = nth ij js [] in
    (match segs with
     | [] -> Err EZeroDiv
     | _ :: _ ->
       let is' = Nat.modulo is_ (length segs) in
       if existsb (nn_eqb (ij, is')) matrix
       then Ok matrix
       else let matrix' = app matrix ((ij, is') :: []) in
            let last_point = last_pt (nth is' segs []) in
            let possibles =
              filter (fun i ->
                (&&) (negb (Nat.eqb i ij))
                  (jordan_has (nth i js []) last_point)) (seq O (length js))
            in
            (match possibles with
             | [] -> pursue_path f ij (S is') js matrix'
             | ij' :: _ ->
               let segs' = nth ij' js [] in
               let is'' =
                 match index_where (fun s -> pt_eq (first_pt s) last_point)
                         segs' with
                 | Some k -> k
                 | None -> is'
               in
               pursue_path f ij' is'' js matrix'))

(** val is_rotation : (nat * nat) list -> (nat * nat) list -> bool **)

let is_rotation one other =
  if negb (Nat.eqb (length one) (length other))
  then false
  else (match other with
        | [] -> true
        | o0 :: _ ->
          (match index_where (nn_eqb o0) one with
           | Some r ->
             forallb (fun ab -> nn_eqb (fst ab) (snd ab))
               (combine other (rotl r one))
           | None -> false))

(** val filter_rotations : (nat * nat) list list -> (nat * nat) list list **)

let filter_rotations m =
  fold_left (fun filtered line ->
    if existsb (fun fl -> is_rotation line fl) filtered
    then filtered
    else app filtered (line :: [])) m []

(** val indexs_to_jordan : jordan list -> (nat * nat) list -> jordan res **)

let indexs_to_jordan js idx =
  from_segments (map (fun ik -> nth (snd ik) (nth (fst ik) js []) []) idx)

(** val total_segments : jordan list -> nat **)

let total_segments js =
  fold_right (fun j n -> add (length j) n) O js

(** val follow_path : jordan list -> (nat * nat) list -> jordan list res **)

let follow_path js starts =
  bind
    (mapM (fun st ->
      pursue_path (S (total_segments js)) (fst st) (snd st) js []) starts)
    (fun paths -> mapM (indexs_to_jordan js) (filter_rotations paths))

(** val recombine :
    shape -> shape -> bool -> bool -> ((shape * shape) * jordan list) res **)

let recombine a b closed inside =
  bind (split_all (jordans a) (jordans b)) (fun r ->
    let (jas, jbs) = r in
    let a' = with_jordans a jas in
    let b' = with_jordans b jbs in
    let idx = midpoints_shapes a' b' closed inside in
    bind (follow_path (app jas jbs) idx) (fun new0 -> Ok ((a', b'), new0)))

type op3 = (shape * shape) * shape

(** val op_or : shape -> shape -> op3 res **)

let op_or a b =
  match a with
  | SEmpty -> bind (copy_shape b) (fun c -> Ok ((a, b), c))
  | SWhole -> Ok ((a, b), SWhole)
  | SC _ ->
    (match b with
     | SEmpty -> bind (copy_shape a) (fun c -> Ok ((a, b), c))
     | SWhole -> Ok ((a, b), SWhole)
     | SC _ ->
       bind (contains_shape a b) (fun x ->
         if x
         then bind (copy_shape a) (fun c -> Ok ((a, b), c))
         else bind (contains_shape b a) (fun y ->
                if y
                then bind (copy_shape b) (fun c -> Ok ((a, b), c))
                else bind (recombine a b true false) (fun r ->
                       let (p, new0) = r in
                       let (a', b') = p in
                       (match new0 with
                        | [] -> Ok ((a', b'), SWhole)
                        | _ :: _ ->
                          bind (shape_from_jordans new0) (fun s -> Ok ((a',
                            b'), s))))))
     | SD _ ->
       bind (contains_shape a b) (fun x ->
         if x
         then bind (copy_shape a) (fun c -> Ok ((a, b), c))
         else bind (contains_shape b a) (fun y ->
                if y
                then bind (copy_shape b) (fun c -> Ok ((a, b), c))
                else bind (recombine a b true false) (fun r ->
                       let (p, new0) = r in
                       let (a', b') = p in
                       (match new0 with
                        | [] -> Ok ((a', b'), SWhole)
                        | _ :: _ ->
                          bind (shape_from_jordans new0) (fun s -> Ok ((a',
                            b'), s)))))))
  | SD _ ->
    (match b with
     | SEmpty -> bind (copy_shape a) (fun c -> Ok ((a, b), c))
     | SWhole -> Ok ((a, b), SWhole)
     | SC _ ->
       bind (contains_shape a b) (fun x ->
         if x
         then bind (copy_shape a) (fun c -> Ok ((a, b), c))
         else bind (contains_shape b a) (fun y ->
                if y
                then bind (copy_shape b) (fun c -> Ok ((a, b), c))
                else bind (recombine a b true false) (fun r ->
                       let (p, new0) = r in
                       let (a', b') = p in
                       (match new0 with
                        | [] -> Ok ((a', b'), SWhole)
                        | _ :: _ ->
                          bind (shape_from_jordans new0) (fun s -> Ok ((a',
                            b'), s))))))
     | SD _ ->
       bind (contains_shape a b) (fun x ->
         if x
         then bind (copy_shape a) (fun c -> Ok ((a, b), c))
         else bind (contains_shape b a) (fun y ->
                if y
                then bind (copy_shape b) (fun c -> Ok ((a, b), c))
                else bind (recombine a b true false) (fun r ->
                       let (p, new0) = r in
                       let (a', b') = p in
                       (match new0 with
                        | [] -> Ok ((a', b'), SWhole)
                        | _ :: _ ->
                          bind (shape_from_jordans new0) (fun s -> Ok ((a',
                            b'), s)))))))

(** val op_and : shape -> shape -> op3 res **)

let op_and a b =
  match a with
  | SEmpty -> Ok ((a, b), SEmpty)
  | SWhole -> bind (copy_shape b) (fun c -> Ok ((a, b), c))
  | SC _ ->
    (match b with
     | SEmpty -> Ok ((a, b), SEmpty)
     | SWhole -> bind (copy_shape a) (fun c -> Ok ((a, b), c))
     | SC _ ->
       bind (contains_shape a b) (fun x ->
         if x
         then bind (copy_shape b) (fun c -> Ok ((a, b), c))
         else bind (contains_shape b a) (fun y ->
                if y
                then bind (copy_shape a) (fun c -> Ok ((a, b), c))
                else bind (recombine a b false true) (fun r ->
                       let (p, new0) = r in
                       let (a', b') = p in
                       (match new0 with
                        | [] -> Ok ((a', b'), SEmpty)
                        | _ :: _ ->
                          bind (shape_from_jordans new0) (fun s -> Ok ((a',
                            b'), s))))))
     | SD _ ->
       bind (contains_shape a b) (fun x ->
         if x
         then bind (copy_shape b) (fun c -> Ok ((a, b), c))
         else bind (contains_shape b a) (fun y ->
                if y
                then bind (copy_shape a) (fun c -> Ok ((a, b), c))
                else bind (recombine a b false true) (fun r ->
                       let (p, new0) = r in
                       let (a', b') = p in
                       (match new0 with
                        | [] -> Ok ((a', b'), SEmpty)
                        | _ :: _ ->
                          bind (shape_from_jordans new0) (fun s -> Ok ((a',
                            b'), s)))))))
  | SD _ ->
    (match b with
     | SEmpty -> Ok ((a, b), SEmpty)
     | SWhole -> bind (copy_shape a) (fun c -> Ok ((a, b), c))
     | SC _ ->
       bind (contains_shape a b) (fun x ->
         if x
         then bind (copy_shape b) (fun c -> Ok ((a, b), c))
         else bind (contains_shape b a) (fun y ->
                if y
                then bind (copy_shape a) (fun c -> Ok ((a, b), c))
                else bind (recombine a b false true) (fun r ->
                       let (p, new0) = r in
                       let (a', b') = p in
                       (match new0 with
                        | [] -> Ok ((a', b'), SEmpty)
                        | _ :: _ ->
                          bind (shape_from_jordans new0) (fun s -> Ok ((a',
                            b'), s))))))
     | SD _ ->
       bind (contains_shape a b) (fun x ->
         if x
         then bind (copy_shape b) (fun c -> Ok ((a, b), c))
         else bind (contains_shape b a) (fun y ->
                if y
                then bind (copy_shape a) (fun c -> Ok ((a, b), c))
                else bind (recombine a b false true) (fun r ->
                       let (p, new0) = r in
                       let (a', b') = p in
                       (match new0 with
                        | [] -> Ok ((a', b'), SEmpty)
                        | _ :: _ ->
                          bind (shape_from_jordans new0) (fun s -> Ok ((a',
                            b'), s)))))))

(** val op_sub : shape -> shape -> (shape * shape) res **)

let op_sub a b =
  match a with
  | SEmpty -> Ok (a, SEmpty)
  | SWhole -> bind (op_not b) (fun nb -> Ok (a, nb))
  | SC _ ->
    bind (op_not b) (fun nb ->
      bind (op_and a nb) (fun r ->
        let (p, s) = r in let (a', _) = p in Ok (a', s)))
  | SD _ ->
    bind (op_not b) (fun nb ->
      bind (op_and a nb) (fun r ->
        let (p, s) = r in let (a', _) = p in Ok (a', s)))

(** val op_xor : shape -> shape -> op3 res **)

let op_xor a b =
  bind (op_sub a b) (fun r1 ->
    let (a1, d1) = r1 in
    bind (op_sub b a1) (fun r2 ->
      let (b1, d2) = r2 in
      bind (op_or d1 d2) (fun r3 -> let (_, s) = r3 in Ok ((a1, b1), s))))

(** val simple_eq : jordan -> jordan -> bool res **)

let simple_eq a b =
  if negb (qeq_bool (jordan_area a) (jordan_area b))
  then Ok false
  else jordan_eq a b

(** val comp_eq : comp -> comp -> bool res **)

let comp_eq a b =
  match a with
  | CS ja -> (match b with
              | CS jb -> simple_eq ja jb
              | CC _ -> Ok false)
  | CC _ ->
    (match b with
     | CS _ -> Ok false
     | CC _ -> Ok (qle_bool (qabs' (qminus (comp_area a) (comp_area b))) tol6))

(** val disjoint_match : nat -> comp list -> comp list -> bool res **)

let rec disjoint_match fuel ss os =
  match fuel with
  | O -> NoFuel
  | S f ->
    (match ss with
     | [] -> (match os with
              | [] -> Ok true
              | _ :: _ -> Ok false)
     | s0 :: st ->
       (match os with
        | [] -> Ok false
        | _ :: _ ->
          let find =
            let rec find k = function
            | [] -> Ok None
            | o :: t ->
              bind (comp_eq o s0) (fun e ->
                if e then Ok (Some k) else find (S k) t)
            in find
          in
          bind (find O os) (fun r ->
            match r with
            | Some k -> disjoint_match f st (remove_nth k os)
            | None -> Ok false)))

(** val shape_eq : shape -> shape -> bool res **)

let shape_eq a b =
  match a with
  | SEmpty -> (match b with
               | SEmpty -> Ok true
               | _ -> Ok false)
  | SWhole -> (match b with
               | SWhole -> Ok true
               | _ -> Ok false)
  | SC ca -> (match b with
              | SC cb -> comp_eq ca cb
              | _ -> Ok false)
  | SD ca ->
    (match b with
     | SD cb ->
       if negb (qeq_bool (shape_area a) (shape_area b))
       then Ok false
       else disjoint_match (S (length ca)) ca cb
     | _ -> Ok false)

(** val moment : shape -> nat -> nat -> q **)

let moment s a b =
  qred
    (qdiv (qsum (map (fun j -> jordan_vertical j (S a) b) (jordans s)))
      (nQ (S a)))

type expr =
| EVar of nat
| EOr of expr * expr
| EAnd of expr * expr
| ESub of expr * expr
| EXor of expr * expr
| ENot of expr
| EAdd of expr * expr
| EMul of expr * expr
| ENeg of expr

(** val env_set : shape list -> expr -> shape -> shape list **)

let env_set env e v =
  match e with
  | EVar n -> set_nth n v env
  | _ -> env

(** val eval_expr : shape list -> expr -> (shape list * shape) res **)

let rec eval_expr env e =
  let bin = fun a b f ->
    bind (eval_expr env a) (fun ra ->
      let (env1, va) = ra in
      bind (eval_expr env1 b) (fun rb ->
        let (env2, vb) = rb in
        bind (f va vb) (fun r ->
          let (p, s) = r in
          let (va', vb') = p in Ok ((env_set (env_set env2 a va') b vb'), s))))
  in
  (match e with
   | EVar n ->
     (match nth_error env n with
      | Some s -> Ok (env, s)
      | None -> Err EIndex)
   | EOr (a, b) -> bin a b op_or
   | EAnd (a, b) -> bin a b op_and
   | ESub (a, b) ->
     bin a b (fun x y ->
       bind (op_sub x y) (fun r -> let (x', s) = r in Ok ((x', y), s)))
   | EXor (a, b) -> bin a b op_xor
   | ENot a ->
     bind (eval_expr env a) (fun ra ->
       let (env1, va) = ra in bind (op_not va) (fun s -> Ok (env1, s)))
   | EAdd (a, b) -> bin a b op_or
   | EMul (a, b) -> bin a b op_and
   | ENeg a ->
     bind (eval_expr env a) (fun ra ->
       let (env1, va) = ra in bind (op_not va) (fun s -> Ok (env1, s))))

(** val d_Z : sx -> z option **)

let d_Z = function
| A z0 -> Some z0
| L _ -> None

(** val d_nat : sx -> nat option **)

let d_nat x =
  option_map Z.to_nat (d_Z x)

(** val d_bool : sx -> bool option **)

let d_bool x =
  option_map (fun z0 -> negb (Z.eqb z0 Z0)) (d_Z x)

(** val d_Q : sx -> q option **)

let d_Q = function
| A _ -> None
| L l ->
  (match l with
   | [] -> None
   | s :: l0 ->
     (match s with
      | A n ->
        (match l0 with
         | [] -> None
         | s0 :: l1 ->
           (match s0 with
            | A z0 ->
              (match z0 with
               | Zpos d ->
                 (match l1 with
                  | [] -> Some (qred { qnum = n; qden = d })
                  | _ :: _ -> None)
               | _ -> None)
            | L _ -> None))
      | L _ -> None))

(** val d_list : (sx -> 'a1 option) -> sx list -> 'a1 list option **)

let rec d_list f = function
| [] -> Some []
| x :: t ->
  (match f x with
   | Some a -> (match d_list f t with
                | Some b -> Some (a :: b)
                | None -> None)
   | None -> None)

(** val d_listx : (sx -> 'a1 option) -> sx -> 'a1 list option **)

let d_listx f = function
| A _ -> None
| L l -> d_list f l

(** val d_point : sx -> point option **)

let d_point = function
| A _ -> None
| L l ->
  (match l with
   | [] -> None
   | a :: l0 ->
     (match l0 with
      | [] -> None
      | b :: l1 ->
        (match l1 with
         | [] ->
           (match d_Q a with
            | Some p ->
              (match d_Q b with
               | Some q0 -> Some (p, q0)
               | None -> None)
            | None -> None)
         | _ :: _ -> None)))

(** val d_seg : sx -> point list option **)

let d_seg =
  d_listx d_point

(** val d_jordan : sx -> point list list option **)

let d_jordan =
  d_listx d_seg

(** val d_comp : sx -> comp option **)

let d_comp = function
| A _ -> None
| L l ->
  (match l with
   | [] -> None
   | s :: l0 ->
     (match s with
      | A z0 ->
        (match z0 with
         | Zpos p ->
           (match p with
            | XI p0 ->
              (match p0 with
               | XH ->
                 (match l0 with
                  | [] -> None
                  | js :: l1 ->
                    (match l1 with
                     | [] ->
                       option_map (fun x0 -> CC x0) (d_listx d_jordan js)
                     | _ :: _ -> None))
               | _ -> None)
            | XO p0 ->
              (match p0 with
               | XH ->
                 (match l0 with
                  | [] -> None
                  | j :: l1 ->
                    (match l1 with
                     | [] -> option_map (fun x0 -> CS x0) (d_jordan j)
                     | _ :: _ -> None))
               | _ -> None)
            | XH -> None)
         | _ -> None)
      | L _ -> None))

(** val d_shape : sx -> shape option **)

let d_shape x = match x with
| A _ -> option_map (fun x0 -> SC x0) (d_comp x)
| L l ->
  (match l with
   | [] -> option_map (fun x0 -> SC x0) (d_comp x)
   | s :: l0 ->
     (match s with
      | A z0 ->
        (match z0 with
         | Z0 ->
           (match l0 with
            | [] -> Some SEmpty
            | _ :: _ -> option_map (fun x0 -> SC x0) (d_comp x))
         | Zpos p ->
           (match p with
            | XI _ -> option_map (fun x0 -> SC x0) (d_comp x)
            | XO p0 ->
              (match p0 with
               | XO p1 ->
                 (match p1 with
                  | XH ->
                    (match l0 with
                     | [] -> option_map (fun x0 -> SC x0) (d_comp x)
                     | cs :: l1 ->
                       (match l1 with
                        | [] ->
                          option_map (fun x0 -> SD x0) (d_listx d_comp cs)
                        | _ :: _ -> option_map (fun x0 -> SC x0) (d_comp x)))
                  | _ -> option_map (fun x0 -> SC x0) (d_comp x))
               | _ -> option_map (fun x0 -> SC x0) (d_comp x))
            | XH ->
              (match l0 with
               | [] -> Some SWhole
               | _ :: _ -> option_map (fun x0 -> SC x0) (d_comp x)))
         | Zneg _ -> option_map (fun x0 -> SC x0) (d_comp x))
      | L _ -> option_map (fun x0 -> SC x0) (d_comp x)))

(** val d_expr : nat -> sx -> expr option **)

let rec d_expr fuel x =
  match fuel with
  | O -> None
  | S f ->
    (match x with
     | A _ -> None
     | L l ->
       (match l with
        | [] -> None
        | s :: l0 ->
          (match s with
           | A k ->
             (match k with
              | Z0 ->
                (match l0 with
                 | [] -> None
                 | a :: l1 ->
                   (match a with
                    | A n ->
                      (match l1 with
                       | [] -> Some (EVar (Z.to_nat n))
                       | b :: l2 ->
                         (match l2 with
                          | [] ->
                            (match d_expr f a with
                             | Some ea ->
                               (match d_expr f b with
                                | Some eb ->
                                  if Z.eqb k (Zpos XH)
                                  then Some (EOr (ea, eb))
                                  else if Z.eqb k (Zpos (XO XH))
                                       then Some (EAnd (ea, eb))
                                       else if Z.eqb k (Zpos (XI XH))
                                            then Some (ESub (ea, eb))
                                            else if Z.eqb k (Zpos (XO (XO
                                                      XH)))
                                                 then Some (EXor (ea, eb))
                                                 else if Z.eqb k (Zpos (XO
                                                           (XI XH)))
                                                      then Some (EAdd (ea,
                                                             eb))
                                                      else if Z.eqb k (Zpos
                                                                (XI (XI XH)))
                                                           then Some (EMul
                                                                  (ea, eb))
                                                           else None
                                | None -> None)
                             | None -> None)
                          | _ :: _ -> None))
                    | L _ ->
                      (match l1 with
                       | [] ->
                         (match d_expr f a with
                          | Some ea ->
                            if Z.eqb k (Zpos (XI (XO XH)))
                            then Some (ENot ea)
                            else if Z.eqb k (Zpos (XO (XO (XO XH))))
                                 then Some (ENeg ea)
                                 else None
                          | None -> None)
                       | b :: l3 ->
                         (match l3 with
                          | [] ->
                            (match d_expr f a with
                             | Some ea ->
                               (match d_expr f b with
                                | Some eb ->
                                  if Z.eqb k (Zpos XH)
                                  then Some (EOr (ea, eb))
                                  else if Z.eqb k (Zpos (XO XH))
                                       then Some (EAnd (ea, eb))
                                       else if Z.eqb k (Zpos (XI XH))
                                            then Some (ESub (ea, eb))
                                            else if Z.eqb k (Zpos (XO (XO
                                                      XH)))
                                                 then Some (EXor (ea, eb))
                                                 else if Z.eqb k (Zpos (XO
                                                           (XI XH)))
                                                      then Some (EAdd (ea,
                                                             eb))
                                                      else if Z.eqb k (Zpos
                                                                (XI (XI XH)))
                                                           then Some (EMul
                                                                  (ea, eb))
                                                           else None
                                | None -> None)
                             | None -> None)
                          | _ :: _ -> None))))
              | _ ->
                (match l0 with
                 | [] -> None
                 | a :: l1 ->
                   (match l1 with
                    | [] ->
                      (match d_expr f a with
                       | Some ea ->
                         if Z.eqb k (Zpos (XI (XO XH)))
                         then Some (ENot ea)
                         else if Z.eqb k (Zpos (XO (XO (XO XH))))
                              then Some (ENeg ea)
                              else None
                       | None -> None)
                    | b :: l2 ->
                      (match l2 with
                       | [] ->
                         (match d_expr f a with
                          | Some ea ->
                            (match d_expr f b with
                             | Some eb ->
                               if Z.eqb k (Zpos XH)
                               then Some (EOr (ea, eb))
                               else if Z.eqb k (Zpos (XO XH))
                                    then Some (EAnd (ea, eb))
                                    else if Z.eqb k (Zpos (XI XH))
                                         then Some (ESub (ea, eb))
                                         else if Z.eqb k (Zpos (XO (XO XH)))
                                              then Some (EXor (ea, eb))
                                              else if Z.eqb k (Zpos (XO (XI
                                                        XH)))
                                                   then Some (EAdd (ea, eb))
                                                   else if Z.eqb k (Zpos (XI
                                                             (XI XH)))
                                                        then Some (EMul (ea,
                                                               eb))
                                                        else None
                             | None -> None)
                          | None -> None)
                       | _ :: _ -> None))))
           | L _ -> None)))

(** val e_nat : nat -> sx **)

let e_nat n =
  A (Z.of_nat n)

(** val e_bool : bool -> sx **)

let e_bool b =
  A (if b then Zpos XH else Z0)

(** val e_Q : q -> sx **)

let e_Q q0 =
  let r = qred q0 in L ((A r.qnum) :: ((A (Zpos r.qden)) :: []))

(** val e_point : point -> sx **)

let e_point p =
  L ((e_Q (px p)) :: ((e_Q (py p)) :: []))

(** val e_list : ('a1 -> sx) -> 'a1 list -> sx **)

let e_list f l =
  L (map f l)

(** val e_seg : point list -> sx **)

let e_seg =
  e_list e_point

(** val e_jordan : point list list -> sx **)

let e_jordan =
  e_list e_seg

(** val e_comp : comp -> sx **)

let e_comp = function
| CS j -> L ((A (Zpos (XO XH))) :: ((e_jordan j) :: []))
| CC js -> L ((A (Zpos (XI XH))) :: ((e_list e_jordan js) :: []))

(** val e_shape : shape -> sx **)

let e_shape = function
| SEmpty -> L ((A Z0) :: [])
| SWhole -> L ((A (Zpos XH)) :: [])
| SC c -> e_comp c
| SD cs -> L ((A (Zpos (XO (XO XH)))) :: ((e_list e_comp cs) :: []))

(** val e_kind : ekind -> sx **)

let e_kind k =
  A
    (match k with
     | EAssert -> Zpos XH
     | EValue -> Zpos (XO XH)
     | EType -> Zpos (XI XH)
     | EIndex -> Zpos (XO (XO XH))
     | EZeroDiv -> Zpos (XI (XO XH))
     | EOther -> Zpos (XO (XI XH)))

(** val e_res : ('a1 -> sx) -> 'a1 res -> sx **)

let e_res f = function
| Ok a -> L ((A Z0) :: ((f a) :: []))
| Err k -> L ((A (Zpos XH)) :: ((e_kind k) :: []))
| NoFuel -> L ((A (Zpos (XO XH))) :: [])

(** val e_box : box -> sx **)

let e_box b =
  L
    ((e_Q (bxmin b)) :: ((e_Q (bymin b)) :: ((e_Q (bxmax b)) :: ((e_Q
                                                                   (bymax b)) :: []))))

(** val e_inter : inter -> sx **)

let e_inter = function
| INone -> L ((A Z0) :: [])
| IEqual -> L ((A (Zpos XH)) :: [])
| IPairs l ->
  L ((A (Zpos (XO
    XH))) :: ((e_list (fun uv -> L
                ((e_Q (fst uv)) :: ((e_Q (snd uv)) :: []))) l) :: []))

(** val e_irow : irow -> sx **)

let e_irow = function
| (p, o) ->
  let (a, b) = p in
  (match o with
   | Some p0 ->
     let (u, v) = p0 in
     L ((e_nat a) :: ((e_nat b) :: ((e_Q u) :: ((e_Q v) :: []))))
   | None -> L ((e_nat a) :: ((e_nat b) :: [])))

(** val bad : sx **)

let bad =
  L ((A (Zpos (XI (XO (XO XH))))) :: [])

(** val iter_derivate : nat -> seg -> seg **)

let rec iter_derivate k s =
  match k with
  | O -> s
  | S n -> iter_derivate n (derivate s)

(** val run : sx -> sx **)

let run = function
| A _ -> bad
| L l ->
  (match l with
   | [] -> bad
   | s :: args ->
     (match s with
      | A op ->
        let opn = Z.to_nat op in
        (match opn with
         | O -> bad
         | S n0 ->
           (match n0 with
            | O ->
              (match args with
               | [] -> bad
               | s0 :: l0 ->
                 (match l0 with
                  | [] -> bad
                  | t :: l1 ->
                    (match l1 with
                     | [] ->
                       (match d_seg s0 with
                        | Some s1 ->
                          (match d_Q t with
                           | Some t0 -> e_point (eval s1 t0)
                           | None -> bad)
                        | None -> bad)
                     | _ :: _ -> bad)))
            | S n1 ->
              (match n1 with
               | O ->
                 (match args with
                  | [] -> bad
                  | s0 :: l0 ->
                    (match l0 with
                     | [] -> bad
                     | k :: l1 ->
                       (match l1 with
                        | [] ->
                          (match d_seg s0 with
                           | Some s1 ->
                             (match d_nat k with
                              | Some k0 -> e_seg (iter_derivate k0 s1)
                              | None -> bad)
                           | None -> bad)
                        | _ :: _ -> bad)))
               | S n2 ->
                 (match n2 with
                  | O ->
                    (match args with
                     | [] -> bad
                     | s0 :: l0 ->
                       (match l0 with
                        | [] -> bad
                        | ts :: l1 ->
                          (match l1 with
                           | [] ->
                             (match d_seg s0 with
                              | Some s1 ->
                                (match d_listx d_Q ts with
                                 | Some ts0 ->
                                   e_list e_seg (split_many ts0 s1)
                                 | None -> bad)
                              | None -> bad)
                           | _ :: _ -> bad)))
                  | S n3 ->
                    (match n3 with
                     | O ->
                       (match args with
                        | [] -> bad
                        | s0 :: l0 ->
                          (match l0 with
                           | [] ->
                             (match d_seg s0 with
                              | Some s1 -> e_box (seg_box s1)
                              | None -> bad)
                           | _ :: _ -> bad))
                     | S n4 ->
                       (match n4 with
                        | O ->
                          (match args with
                           | [] -> bad
                           | s0 :: l0 ->
                             (match l0 with
                              | [] -> bad
                              | p :: l1 ->
                                (match l1 with
                                 | [] ->
                                   (match d_seg s0 with
                                    | Some s1 ->
                                      (match d_point p with
                                       | Some p0 -> e_bool (on_seg s1 p0)
                                       | None -> bad)
                                    | None -> bad)
                                 | _ :: _ -> bad)))
                        | S n5 ->
                          (match n5 with
                           | O ->
                             (match args with
                              | [] -> bad
                              | s0 :: l0 ->
                                (match l0 with
                                 | [] -> bad
                                 | p :: l1 ->
                                   (match l1 with
                                    | [] ->
                                      (match d_seg s0 with
                                       | Some s1 ->
                                         (match d_point p with
                                          | Some p0 -> A (seg_wn s1 p0)
                                          | None -> bad)
                                       | None -> bad)
                                    | _ :: _ -> bad)))
                           | S n6 ->
                             (match n6 with
                              | O ->
                                (match args with
                                 | [] -> bad
                                 | s0 :: l0 ->
                                   (match l0 with
                                    | [] -> bad
                                    | t :: l1 ->
                                      (match l1 with
                                       | [] ->
                                         (match d_seg s0 with
                                          | Some s1 ->
                                            (match d_Q t with
                                             | Some t0 ->
                                               e_point (bernstein s1 t0)
                                             | None -> bad)
                                          | None -> bad)
                                       | _ :: _ -> bad)))
                              | S n7 ->
                                (match n7 with
                                 | O ->
                                   (match args with
                                    | [] -> bad
                                    | s0 :: l0 ->
                                      (match l0 with
                                       | [] -> bad
                                       | ex :: l1 ->
                                         (match l1 with
                                          | [] -> bad
                                          | ey :: l2 ->
                                            (match l2 with
                                             | [] ->
                                               (match d_seg s0 with
                                                | Some s1 ->
                                                  (match d_nat ex with
                                                   | Some ex0 ->
                                                     (match d_nat ey with
                                                      | Some ey0 ->
                                                        e_Q
                                                          (vertical s1 ex0
                                                            ey0)
                                                      | None -> bad)
                                                   | None -> bad)
                                                | None -> bad)
                                             | _ :: _ -> bad))))
                                 | S n8 ->
                                   (match n8 with
                                    | O ->
                                      (match args with
                                       | [] -> bad
                                       | sa :: l0 ->
                                         (match l0 with
                                          | [] -> bad
                                          | sb :: l1 ->
                                            (match l1 with
                                             | [] ->
                                               (match d_seg sa with
                                                | Some sa0 ->
                                                  (match d_seg sb with
                                                   | Some sb0 ->
                                                     e_res e_inter
                                                       (seg_and sa0 sb0)
                                                   | None -> bad)
                                                | None -> bad)
                                             | _ :: _ -> bad)))
                                    | S n9 ->
                                      (match n9 with
                                       | O ->
                                         (match args with
                                          | [] -> bad
                                          | vs :: l0 ->
                                            (match l0 with
                                             | [] ->
                                               (match d_seg vs with
                                                | Some vs0 ->
                                                  e_res e_jordan
                                                    (from_vertices vs0)
                                                | None -> bad)
                                             | _ :: _ -> bad))
                                       | S n10 ->
                                         (match n10 with
                                          | O ->
                                            (match args with
                                             | [] -> bad
                                             | cs :: l0 ->
                                               (match l0 with
                                                | [] ->
                                                  (match d_jordan cs with
                                                   | Some cs0 ->
                                                     e_res e_jordan
                                                       (from_ctrlpoints cs0)
                                                   | None -> bad)
                                                | _ :: _ -> bad))
                                          | S n11 ->
                                            (match n11 with
                                             | O ->
                                               (match args with
                                                | [] -> bad
                                                | j :: l0 ->
                                                  (match l0 with
                                                   | [] -> bad
                                                   | idx :: l1 ->
                                                     (match l1 with
                                                      | [] -> bad
                                                      | nodes :: l2 ->
                                                        (match l2 with
                                                         | [] ->
                                                           (match d_jordan j with
                                                            | Some j0 ->
                                                              (match 
                                                               d_listx d_nat
                                                                 idx with
                                                               | Some idx0 ->
                                                                 (match 
                                                                  d_listx d_Q
                                                                    nodes with
                                                                  | Some nodes0 ->
                                                                    e_res
                                                                    e_jordan
                                                                    (split j0
                                                                    idx0
                                                                    nodes0)
                                                                  | None ->
                                                                    bad)
                                                               | None -> bad)
                                                            | None -> bad)
                                                         | _ :: _ -> bad))))
                                             | S n12 ->
                                               (match n12 with
                                                | O ->
                                                  (match args with
                                                   | [] -> bad
                                                   | j :: l0 ->
                                                     (match l0 with
                                                      | [] ->
                                                        (match d_jordan j with
                                                         | Some j0 ->
                                                           e_res e_jordan
                                                             (clean j0)
                                                         | None -> bad)
                                                      | _ :: _ -> bad))
                                                | S n13 ->
                                                  (match n13 with
                                                   | O ->
                                                     (match args with
                                                      | [] -> bad
                                                      | ja :: l0 ->
                                                        (match l0 with
                                                         | [] -> bad
                                                         | jb :: l1 ->
                                                           (match l1 with
                                                            | [] -> bad
                                                            | eb :: l2 ->
                                                              (match l2 with
                                                               | [] -> bad
                                                               | ep :: l3 ->
                                                                 (match l3 with
                                                                  | [] ->
                                                                    (match 
                                                                    d_jordan
                                                                    ja with
                                                                    | Some ja0 ->
                                                                    (match 
                                                                    d_jordan
                                                                    jb with
                                                                    | Some jb0 ->
                                                                    (match 
                                                                    d_bool eb with
                                                                    | Some eb0 ->
                                                                    (match 
                                                                    d_bool ep with
                                                                    | Some ep0 ->
                                                                    e_res
                                                                    (e_list
                                                                    e_irow)
                                                                    (intersection
                                                                    ja0 jb0
                                                                    eb0 ep0)
                                                                    | None ->
                                                                    bad)
                                                                    | None ->
                                                                    bad)
                                                                    | None ->
                                                                    bad)
                                                                    | None ->
                                                                    bad)
                                                                  | _ :: _ ->
                                                                    bad)))))
                                                   | S n14 ->
                                                     (match n14 with
                                                      | O ->
                                                        (match args with
                                                         | [] -> bad
                                                         | ja :: l0 ->
                                                           (match l0 with
                                                            | [] -> bad
                                                            | jb :: l1 ->
                                                              (match l1 with
                                                               | [] ->
                                                                 (match 
                                                                  d_jordan ja with
                                                                  | Some ja0 ->
                                                                    (match 
                                                                    d_jordan
                                                                    jb with
                                                                    | Some jb0 ->
                                                                    e_res
                                                                    e_bool
                                                                    (jordan_eq
                                                                    ja0 jb0)
                                                                    | None ->
                                                                    bad)
                                                                  | None ->
                                                                    bad)
                                                               | _ :: _ -> bad)))
                                                      | S n15 ->
                                                        (match n15 with
                                                         | O ->
                                                           (match args with
                                                            | [] -> bad
                                                            | j :: l0 ->
                                                              (match l0 with
                                                               | [] ->
                                                                 (match 
                                                                  d_jordan j with
                                                                  | Some j0 ->
                                                                    e_Q
                                                                    (jordan_area
                                                                    j0)
                                                                  | None ->
                                                                    bad)
                                                               | _ :: _ -> bad))
                                                         | S n16 ->
                                                           (match n16 with
                                                            | O ->
                                                              (match args with
                                                               | [] -> bad
                                                               | j :: l0 ->
                                                                 (match l0 with
                                                                  | [] -> bad
                                                                  | p :: l1 ->
                                                                    (match l1 with
                                                                    | [] ->
                                                                    (match 
                                                                    d_jordan j with
                                                                    | Some j0 ->
                                                                    (match 
                                                                    d_point p with
                                                                    | Some p0 ->
                                                                    A
                                                                    (jordan_wn2
                                                                    j0 p0)
                                                                    | None ->
                                                                    bad)
                                                                    | None ->
                                                                    bad)
                                                                    | _ :: _ ->
                                                                    bad)))
                                                            | S n17 ->
                                                              (match n17 with
                                                               | O ->
                                                                 (match args with
                                                                  | [] -> bad
                                                                  | j :: l0 ->
                                                                    (match l0 with
                                                                    | [] ->
                                                                    (match 
                                                                    d_jordan j with
                                                                    | Some j0 ->
                                                                    e_seg
                                                                    (vertices
                                                                    j0)
                                                                    | None ->
                                                                    bad)
                                                                    | _ :: _ ->
                                                                    bad))
                                                               | S n18 ->
                                                                 (match n18 with
                                                                  | O ->
                                                                    (match args with
                                                                    | [] ->
                                                                    bad
                                                                    | j :: l0 ->
                                                                    (match l0 with
                                                                    | [] ->
                                                                    (match 
                                                                    d_jordan j with
                                                                    | Some j0 ->
                                                                    e_jordan
                                                                    (invert
                                                                    j0)
                                                                    | None ->
                                                                    bad)
                                                                    | _ :: _ ->
                                                                    bad))
                                                                  | S n19 ->
                                                                    (match n19 with
                                                                    | O ->
                                                                    (match args with
                                                                    | [] ->
                                                                    bad
                                                                    | j :: l0 ->
                                                                    (match l0 with
                                                                    | [] ->
                                                                    (match 
                                                                    d_jordan j with
                                                                    | Some j0 ->
                                                                    e_box
                                                                    (jordan_box
                                                                    j0)
                                                                    | None ->
                                                                    bad)
                                                                    | _ :: _ ->
                                                                    bad))
                                                                    | S n20 ->
                                                                    (match n20 with
                                                                    | O ->
                                                                    (match args with
                                                                    | [] ->
                                                                    bad
                                                                    | j :: l0 ->
                                                                    (match l0 with
                                                                    | [] ->
                                                                    bad
                                                                    | p :: l1 ->
                                                                    (match l1 with
                                                                    | [] ->
                                                                    (match 
                                                                    d_jordan j with
                                                                    | Some j0 ->
                                                                    (match 
                                                                    d_point p with
                                                                    | Some p0 ->
                                                                    e_bool
                                                                    (jordan_has
                                                                    j0 p0)
                                                                    | None ->
                                                                    bad)
                                                                    | None ->
                                                                    bad)
                                                                    | _ :: _ ->
                                                                    bad)))
                                                                    | S n21 ->
                                                                    (match n21 with
                                                                    | O ->
                                                                    (match args with
                                                                    | [] ->
                                                                    bad
                                                                    | j :: l0 ->
                                                                    (match l0 with
                                                                    | [] ->
                                                                    bad
                                                                    | n :: l1 ->
                                                                    (match l1 with
                                                                    | [] ->
                                                                    (match 
                                                                    d_jordan j with
                                                                    | Some j0 ->
                                                                    (match 
                                                                    d_nat n with
                                                                    | Some n22 ->
                                                                    e_seg
                                                                    (points
                                                                    j0 n22)
                                                                    | None ->
                                                                    bad)
                                                                    | None ->
                                                                    bad)
                                                                    | _ :: _ ->
                                                                    bad)))
                                                                    | S n ->
                                                                    (match n with
                                                                    | O ->
                                                                    (match args with
                                                                    | [] ->
                                                                    bad
                                                                    | j :: l0 ->
                                                                    (match l0 with
                                                                    | [] ->
                                                                    bad
                                                                    | ex :: l1 ->
                                                                    (match l1 with
                                                                    | [] ->
                                                                    bad
                                                                    | ey :: l2 ->
                                                                    (match l2 with
                                                                    | [] ->
                                                                    (match 
                                                                    d_jordan j with
                                                                    | Some j0 ->
                                                                    (match 
                                                                    d_nat ex with
                                                                    | Some ex0 ->
                                                                    (match 
                                                                    d_nat ey with
                                                                    | Some ey0 ->
                                                                    e_Q
                                                                    (jordan_vertical
                                                                    j0 ex0
                                                                    ey0)
                                                                    | None ->
                                                                    bad)
                                                                    | None ->
                                                                    bad)
                                                                    | None ->
                                                                    bad)
                                                                    | _ :: _ ->
                                                                    bad))))
                                                                    | S n22 ->
                                                                    (match n22 with
                                                                    | O -> bad
                                                                    | S n23 ->
                                                                    (match n23 with
                                                                    | O -> bad
                                                                    | S n24 ->
                                                                    (match n24 with
                                                                    | O -> bad
                                                                    | S n25 ->
                                                                    (match n25 with
                                                                    | O -> bad
                                                                    | S n26 ->
                                                                    (match n26 with
                                                                    | O -> bad
                                                                    | S n27 ->
                                                                    (match n27 with
                                                                    | O -> bad
                                                                    | S n28 ->
                                                                    (match n28 with
                                                                    | O ->
                                                                    (match args with
                                                                    | [] ->
                                                                    bad
                                                                    | s0 :: l0 ->
                                                                    (match l0 with
                                                                    | [] ->
                                                                    bad
                                                                    | p :: l1 ->
                                                                    (match l1 with
                                                                    | [] ->
                                                                    bad
                                                                    | b :: l2 ->
                                                                    (match l2 with
                                                                    | [] ->
                                                                    (match 
                                                                    d_shape s0 with
                                                                    | Some s1 ->
                                                                    (match 
                                                                    d_point p with
                                                                    | Some p0 ->
                                                                    (match 
                                                                    d_bool b with
                                                                    | Some b0 ->
                                                                    e_bool
                                                                    (contains_point
                                                                    s1 p0 b0)
                                                                    | None ->
                                                                    bad)
                                                                    | None ->
                                                                    bad)
                                                                    | None ->
                                                                    bad)
                                                                    | _ :: _ ->
                                                                    bad))))
                                                                    | S n29 ->
                                                                    (match n29 with
                                                                    | O ->
                                                                    (match args with
                                                                    | [] ->
                                                                    bad
                                                                    | s0 :: l0 ->
                                                                    (match l0 with
                                                                    | [] ->
                                                                    bad
                                                                    | j :: l1 ->
                                                                    (match l1 with
                                                                    | [] ->
                                                                    bad
                                                                    | b :: l2 ->
                                                                    (match l2 with
                                                                    | [] ->
                                                                    (match 
                                                                    d_shape s0 with
                                                                    | Some s1 ->
                                                                    (match 
                                                                    d_jordan j with
                                                                    | Some j0 ->
                                                                    (match 
                                                                    d_bool b with
                                                                    | Some b0 ->
                                                                    e_res
                                                                    e_bool
                                                                    (contains_jordan
                                                                    s1 j0 b0)
                                                                    | None ->
                                                                    bad)
                                                                    | None ->
                                                                    bad)
                                                                    | None ->
                                                                    bad)
                                                                    | _ :: _ ->
                                                                    bad))))
                                                                    | S n30 ->
                                                                    (match n30 with
                                                                    | O ->
                                                                    (match args with
                                                                    | [] ->
                                                                    bad
                                                                    | a :: l0 ->
                                                                    (match l0 with
                                                                    | [] ->
                                                                    bad
                                                                    | b :: l1 ->
                                                                    (match l1 with
                                                                    | [] ->
                                                                    (match 
                                                                    d_shape a with
                                                                    | Some a0 ->
                                                                    (match 
                                                                    d_shape b with
                                                                    | Some b0 ->
                                                                    e_res
                                                                    e_bool
                                                                    (contains_shape
                                                                    a0 b0)
                                                                    | None ->
                                                                    bad)
                                                                    | None ->
                                                                    bad)
                                                                    | _ :: _ ->
                                                                    bad)))
                                                                    | S n31 ->
                                                                    (match n31 with
                                                                    | O ->
                                                                    (match args with
                                                                    | [] ->
                                                                    bad
                                                                    | s0 :: l0 ->
                                                                    (match l0 with
                                                                    | [] ->
                                                                    (match 
                                                                    d_shape s0 with
                                                                    | Some s1 ->
                                                                    e_Q
                                                                    (shape_area
                                                                    s1)
                                                                    | None ->
                                                                    bad)
                                                                    | _ :: _ ->
                                                                    bad))
                                                                    | S n32 ->
                                                                    (match n32 with
                                                                    | O ->
                                                                    (match args with
                                                                    | [] ->
                                                                    bad
                                                                    | s0 :: l0 ->
                                                                    (match l0 with
                                                                    | [] ->
                                                                    bad
                                                                    | a :: l1 ->
                                                                    (match l1 with
                                                                    | [] ->
                                                                    bad
                                                                    | b :: l2 ->
                                                                    (match l2 with
                                                                    | [] ->
                                                                    (match 
                                                                    d_shape s0 with
                                                                    | Some s1 ->
                                                                    (match 
                                                                    d_nat a with
                                                                    | Some a0 ->
                                                                    (match 
                                                                    d_nat b with
                                                                    | Some b0 ->
                                                                    e_Q
                                                                    (moment
                                                                    s1 a0 b0)
                                                                    | None ->
                                                                    bad)
                                                                    | None ->
                                                                    bad)
                                                                    | None ->
                                                                    bad)
                                                                    | _ :: _ ->
                                                                    bad))))
                                                                    | S n33 ->
                                                                    (match n33 with
                                                                    | O ->
                                                                    (match args with
                                                                    | [] ->
                                                                    bad
                                                                    | s0 :: l0 ->
                                                                    (match l0 with
                                                                    | [] ->
                                                                    (match 
                                                                    d_shape s0 with
                                                                    | Some s1 ->
                                                                    e_res
                                                                    e_shape
                                                                    (op_not
                                                                    s1)
                                                                    | None ->
                                                                    bad)
                                                                    | _ :: _ ->
                                                                    bad))
                                                                    | S n34 ->
                                                                    (match n34 with
                                                                    | O ->
                                                                    (match args with
                                                                    | [] ->
                                                                    bad
                                                                    | env :: l0 ->
                                                                    (match l0 with
                                                                    | [] ->
                                                                    bad
                                                                    | e :: l1 ->
                                                                    (match l1 with
                                                                    | [] ->
                                                                    (match 
                                                                    d_listx
                                                                    d_shape
                                                                    env with
                                                                    | Some env0 ->
                                                                    (match 
                                                                    d_expr (S
                                                                    (S (S (S
                                                                    (S (S (S
                                                                    (S (S (S
                                                                    (S (S (S
                                                                    (S (S (S
                                                                    (S (S (S
                                                                    (S (S (S
                                                                    (S (S (S
                                                                    (S (S (S
                                                                    (S (S (S
                                                                    (S (S (S
                                                                    (S (S (S
                                                                    (S (S (S
                                                                    (S (S (S
                                                                    (S (S (S
                                                                    (S (S (S
                                                                    (S (S (S
                                                                    (S (S (S
                                                                    (S (S (S
                                                                    (S (S (S
                                                                    (S (S (S
                                                                    O))))))))))))))))))))))))))))))))))))))))))))))))))))))))))))))))
                                                                    e with
                                                                    | Some e0 ->
                                                                    e_res
                                                                    (fun r ->
                                                                    L
                                                                    ((e_list
                                                                    e_shape
                                                                    (fst r)) :: (
                                                                    (e_shape
                                                                    (snd r)) :: [])))
                                                                    (eval_expr
                                                                    env0 e0)
                                                                    | None ->
                                                                    bad)
                                                                    | None ->
                                                                    bad)
                                                                    | _ :: _ ->
                                                                    bad)))
                                                                    | S n35 ->
                                                                    (match n35 with
                                                                    | O ->
                                                                    (match args with
                                                                    | [] ->
                                                                    bad
                                                                    | a :: l0 ->
                                                                    (match l0 with
                                                                    | [] ->
                                                                    bad
                                                                    | b :: l1 ->
                                                                    (match l1 with
                                                                    | [] ->
                                                                    (match 
                                                                    d_shape a with
                                                                    | Some a0 ->
                                                                    (match 
                                                                    d_shape b with
                                                                    | Some b0 ->
                                                                    e_res
                                                                    e_bool
                                                                    (shape_eq
                                                                    a0 b0)
                                                                    | None ->
                                                                    bad)
                                                                    | None ->
                                                                    bad)
                                                                    | _ :: _ ->
                                                                    bad)))
                                                                    | S n36 ->
                                                                    (match n36 with
                                                                    | O ->
                                                                    (match args with
                                                                    | [] ->
                                                                    bad
                                                                    | s0 :: l0 ->
                                                                    (match l0 with
                                                                    | [] ->
                                                                    (match 
                                                                    d_shape s0 with
                                                                    | Some s1 ->
                                                                    e_res
                                                                    e_shape
                                                                    (copy_shape
                                                                    s1)
                                                                    | None ->
                                                                    bad)
                                                                    | _ :: _ ->
                                                                    bad))
                                                                    | S n37 ->
                                                                    (match n37 with
                                                                    | O ->
                                                                    (match args with
                                                                    | [] ->
                                                                    bad
                                                                    | js :: l0 ->
                                                                    (match l0 with
                                                                    | [] ->
                                                                    (match 
                                                                    d_listx
                                                                    d_jordan
                                                                    js with
                                                                    | Some js0 ->
                                                                    e_res
                                                                    e_shape
                                                                    (shape_from_jordans
                                                                    js0)
                                                                    | None ->
                                                                    bad)
                                                                    | _ :: _ ->
                                                                    bad))
                                                                    | S _ ->
                                                                    bad))))))))))))))))))))))))))))))))))))))))
      | L _ -> bad))
