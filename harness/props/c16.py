"""C16 -- primitive factories build the documented positive shapes or raise ValueError."""
import math
from fractions import Fraction as F

from .. import gen as G, impl as I, oracle as O, util as U
from ..core import Fail

PID = "C16"
RULE = ("Primitive.square / triangle / regular_polygon / circle / polygon with random valid parameters of all numeric types "
        "(regular polygons and circles after earlier calls with the same number of sides / arcs and other sizes) "
        "(int, Fraction, float, bool True): vertices, closed-form area, orientation, centre contained, far point not, box; "
        "polygon: vertices kept in order, orientation = given order; circle: every arc within the quadratic band around r "
        "for ndivangle in 4..40, area between the inscribed polygon and the circle of the band; the invalid-parameter "
        "matrix (non-positive, str, numeric str, None, list, bool False, float nsides, nsides < 3, ndivangle < 4) must "
        "raise ValueError; non-trivial = a non-default centre or size; distinct = SHA-1")
PROOF_STATUS = ("Props/C16.v: square/triangle/regular4/polygon specifications, validation iff, circle band identity for all "
                "arcs, circle of 4 arcs, regular polygons counter-clockwise (over Q with exact rotations)")


def _size(rng):
    t = rng.choice(["int", "frac", "float"])
    return {"int": rng.randint(1, 9), "frac": F(rng.randint(1, 40), rng.choice([3, 7, 8])), "float": rng.uniform(0.05, 9)}[t]


def _center(rng):
    t = rng.choice(["zero", "int", "frac", "float"])
    return {"zero": (0, 0), "int": (rng.randint(-9, 9), rng.randint(-9, 9)),
            "frac": (F(rng.randint(-40, 40), 7), F(rng.randint(-40, 40), 3)), "float": (rng.uniform(-5, 5), rng.uniform(-5, 5))}[t]


def cases(ctx):
    rng = ctx.rng
    for i in range(ctx.n(60, 1500)):
        k = ["square", "triangle", "regular", "circle", "polygon"][i % 5]
        c = {"k": k, "size": _size(rng), "center": _center(rng)}
        if k == "regular":
            c["n"] = rng.choice([3, 4, 4, 5, 6, 7, 12, 30]) if i % 10 == 2 else rng.randint(3, 400)
        if k == "circle":
            c["nd"] = rng.choice([4, 5, 8, 16, 16, 24, 40])
        if k == "polygon":
            vs = G.star_polygon(rng, R=8, den=rng.choice([1, 2]))
            c["vs"] = vs if rng.random() < 0.5 else vs[::-1]
        yield c
    bads = [0, -1, -2.5, F(-1, 3), "1", "a", None, [1], False]
    for f in ("square", "triangle", "regular", "circle"):
        for b in bads:
            yield {"k": f, "bad": b}
    for n in range(3, ctx.n(420, 3000), ctx.n(1, 1)):
        yield {"k": "regular", "size": 1, "center": (0, 0), "n": n, "count_only": True}
    for n in (2, 1, 0, -3, 3.0, "4", None):
        yield {"k": "regular", "badn": n}
    for n in (3, 0, -1, 4.0, "8", None):
        yield {"k": "circle", "badnd": n}
    yield {"k": "square", "size": True, "center": (0, 0)}


def nontrivial(case):
    return "bad" not in case and "badn" not in case and "badnd" not in case and (case.get("center") != (0, 0) or case.get("size") != 1)


def _pyarg(x):
    if isinstance(x, bool):
        return [4, x]
    if isinstance(x, str):
        try:
            float(x)
            return [1, [1, 1]]
        except ValueError:
            return [2]
    if x is None:
        return [3]
    if isinstance(x, list):
        return [5]
    q = U.tofrac(x)
    return [0, [q.numerator, q.denominator]]


def check(ctx, case):
    fails = []
    k = case["k"]
    P = I.Primitive
    if "bad" in case or "badn" in case or "badnd" in case:
        ctx.count("invalid:" + k)
        if "bad" in case:
            b = case["bad"]
            f = {"square": lambda: P.square(b), "triangle": lambda: P.triangle(b), "regular": lambda: P.regular_polygon(5, b),
                 "circle": lambda: P.circle(b)}[k]
            if k in ("square", "triangle"):
                rm = ctx.model.prim(0 if k == "square" else 1, _pyarg(b), (F(0), F(0)))
                ctx.k_cases += 1
                if rm == ("err", "Value"):
                    ctx.k_agreed += 1
                else:
                    fails.append(Fail(kind="K", what="model accepts an invalid size", model=str(rm)[:100]))
        elif "badn" in case:
            f = lambda: P.regular_polygon(case["badn"], 1)
        else:
            f = lambda: P.circle(1, (0, 0), case["badnd"])
        r = I.outcome(f)
        if r != ("err", "Value"):
            fails.append(Fail(kind="O", what="invalid parameter does not raise ValueError", case=repr(case), impl=(r[0], str(r[1])[:60])))
        return fails
    if case.get("count_only"):
        # sweep over nsides: exactly nsides vertices, no zero-length side
        r = I.outcome(lambda: P.regular_polygon(case["n"], 1))
        if r[0] != "ok":
            return [Fail(kind="O", what="regular_polygon raised", n=case["n"], impl=r)]
        vs = r[1].jordans[0].vertices
        if len(vs) != case["n"]:
            fails.append(Fail(kind="O", what="regular_polygon(n) does not have n vertices", n=case["n"], impl=len(vs)))
        return fails
    size, center = case["size"], case["center"]
    ctx.count("kind:" + k)
    sz, cx, cy = U.tofrac(size) if not isinstance(size, bool) else F(1), U.tofrac(center[0]), U.tofrac(center[1])
    exact = all(U.is_exact(x) or isinstance(x, bool) for x in (size,) + tuple(center))
    if k == "square":
        r = I.outcome(lambda: P.square(size, center))
        h = sz / 2
        want = [(cx + h, cy + h), (cx - h, cy + h), (cx - h, cy - h), (cx + h, cy - h)]
        area, inner, far = sz * sz, (cx, cy), (cx + 2 * sz + 1, cy)
    elif k == "triangle":
        r = I.outcome(lambda: P.triangle(size, center))
        want = [(cx, cy), (cx + sz, cy), (cx, cy + sz)]
        area, inner, far = sz * sz / 2, (cx + sz / 4, cy + sz / 4), (cx + 2 * sz + 1, cy)
    elif k == "regular":
        n = case["n"]
        # an earlier call with the same number of sides and other sizes must not influence this one
        I.outcome(lambda: (P.regular_polygon(n, 3, (1, 1)), P.regular_polygon(n, F(5, 2))))
        r = I.outcome(lambda: P.regular_polygon(n, size, center))
        want = [(cx + sz * F(math.cos(math.tau * i / n)), cy + sz * F(math.sin(math.tau * i / n))) for i in range(n)]
        if n == 4:
            want = [(cx + sz, cy), (cx, cy + sz), (cx - sz, cy), (cx, cy - sz)]
        else:
            exact = False
        area, inner, far = F(n) / 2 * sz * sz * F(math.sin(math.tau / n)), (cx, cy), (cx + 2 * sz + 1, cy)
    elif k == "polygon":
        vs = case["vs"]
        r = I.outcome(lambda: P.polygon([(p[0], p[1]) for p in vs]))
        want = list(vs)
        area, inner, far, exact = O.moment_jordan(G.verts_to_jordan(vs), 0, 0), None, None, True
    else:
        return _circle(ctx, case, sz, cx, cy)
    if r[0] != "ok":
        return [Fail(kind="O", what="factory raised on valid parameters", impl=r, case=repr(case)[:200])]
    S = r[1]
    if type(S).__name__ != "SimpleShape":
        fails.append(Fail(kind="O", what="factory did not return a SimpleShape", impl=type(S).__name__))
        return fails
    got = [I.pt(v) for v in S.jordans[0].vertices]
    tol_ok = len(got) == len(want) and all(U.pt_same(a, b, exact) if exact else
                                           (abs(a[0] - b[0]) < F(1, 10 ** 9) * max(1, sz) and abs(a[1] - b[1]) < F(1, 10 ** 9) * max(1, sz))
                                           for a, b in zip(got, want))
    if not tol_ok:
        fails.append(Fail(kind="O", what="vertices are not the documented ones", impl=got[:4], expected=want[:4]))
    a = I.num(I.IntegrateShape.area(S))
    if not (a == area if exact else U.num_close(a, area, 1e-9, 1e-12)):
        fails.append(Fail(kind="O", what="area is not the closed form", impl=a, expected=area))
    if k != "polygon":
        if not (float(S) > 0 and float(S.jordans[0]) > 0):
            fails.append(Fail(kind="O", what="primitive is not counter-clockwise / bounded"))
        if not S.contains_point(inner if exact else (float(inner[0]), float(inner[1])), False):
            fails.append(Fail(kind="O", what="centre is not strictly inside"))
        if S.contains_point(far if exact else (float(far[0]), float(far[1])), True):
            fails.append(Fail(kind="O", what="far point is inside"))
    else:
        if (float(S.jordans[0]) > 0) != (area > 0):
            fails.append(Fail(kind="O", what="polygon orientation is not the order of the given vertices"))
    # model (exact squares / triangles / regular 4-gons)
    if exact and k in ("square", "triangle") or (k == "regular" and case.get("n") == 4 and exact):
        rm = ctx.model.prim({"square": 0, "triangle": 1, "regular": 2}[k], _pyarg(size), (cx, cy))
        ctx.k_cases += 1
        if rm[0] == "ok" and U.shape_same(rm[1], I.shape_data(S), True):
            ctx.k_agreed += 1
        else:
            fails.append(Fail(kind="K", what="primitive differs from model", impl=str(I.shape_data(S))[:200], model=str(rm)[:200]))
    return fails


def _circle(ctx, case, r_, cx, cy):
    fails = []
    nd = case["nd"]
    I.outcome(lambda: (I.Primitive.circle(2.5, (1, 2), nd), I.Primitive.circle(3, (0, 0), nd)))     # earlier calls, other sizes
    r = I.outcome(lambda: I.Primitive.circle(case["size"], case["center"], nd))
    if r[0] != "ok":
        return [Fail(kind="O", what="circle raised on valid parameters", impl=r)]
    S = r[1]
    J = S.jordans[0]
    if len(J.segments) != nd or any(s.degree != 2 for s in J.segments):
        fails.append(Fail(kind="O", what="circle does not have ndivangle quadratic arcs", impl=len(J.segments)))
    h = math.tan(math.pi / nd)
    rf = float(r_)
    lo, hi = rf * (1 - 1e-9), rf * math.sqrt(1 + h ** 4 / (4 * (1 + h * h))) * (1 + 1e-9)
    for sg in J.segments:
        for i in range(9):
            p = sg(i / 8)
            d = math.hypot(float(p[0]) - float(cx), float(p[1]) - float(cy))
            if not (lo <= d <= hi):
                fails.append(Fail(kind="O", what="arc leaves the quadratic band around the radius", impl=d, expected=[lo, hi]))
                break
    a = float(S)
    a_lo = nd / 2 * rf * rf * math.sin(math.tau / nd)
    a_hi = math.pi * hi * hi
    if not (a_lo * (1 - 1e-9) <= a <= a_hi * (1 + 1e-9)):
        fails.append(Fail(kind="O", what="circle area outside [inscribed polygon, band circle]", impl=a, expected=[a_lo, a_hi]))
    if nd >= 16 and abs(a - math.pi * rf * rf) > 1e-3 * math.pi * rf * rf:
        fails.append(Fail(kind="O", what="circle area does not approach pi r^2", impl=a))
    if not (float(J) > 0 and S.contains_point((float(cx), float(cy)), False) and not S.contains_point((float(cx) + 3 * rf, float(cy)), True)):
        fails.append(Fail(kind="O", what="circle orientation / centre / far point"))
    if nd == 4 and all(U.is_exact(x) for x in (case["size"],) + tuple(case["center"])):
        pass
    ctx.count("circle:nd=%d" % nd)
    return fails
