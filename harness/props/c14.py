"""C14 -- curve intersection reports exactly the crossings, with the documented encoding."""
from fractions import Fraction as F

from .. import gen as G, impl as I, oracle as O, util as U
from ..core import Fail

PID = "C14"
RULE = ("pairs of closed polygonal curves (int/Fraction/float; crossing, nested, disjoint, touching at vertices, sharing "
        "edges, identical, reversed) x all four flag combinations x both operand orders, plus a curved stream "
        "(circle vs square / circle vs circle: soundness and count of transversal crossings only); non-trivial = "
        "at least one interior crossing; distinct = SHA-1 of the case")
RULE_EXTRA = ("; a few-arc circle rotated by an arbitrary angle and moved, against random polygons, either curve travelled in either direction: every closed-form crossing of "
              "every arc with every edge reported, nothing else, B & A the swap of A & B; a parabola arc against polygons in general position, int / Fraction / float control points: every closed-form "
              "crossing reported once at the right parameters (1e-6), nothing else, even count, swap symmetry")
RULE = RULE + RULE_EXTRA
PROOF_STATUS = ("Props/C14.v: range, soundness, completeness for non-parallel segments, None = equal segments, swap, "
                "flags, totality -- all polygonal curves")


def _pair(rng, mode):
    R = rng.choice([6, 12])
    if mode == "gp":
        a = G.lattice_polygon(rng, R=R) if rng.random() < 0.5 else G.star_polygon(rng, R=R, den=rng.choice([1, 2]))
        b = G.lattice_polygon(rng, R=R) if rng.random() < 0.5 else G.star_polygon(rng, R=R, den=rng.choice([1, 2]))
        return a, b
    a = G.lattice_polygon(rng, R=R)
    if mode == "same":
        k = rng.randrange(len(a))
        return a, a[k:] + a[:k]
    if mode == "rev":
        return a, a[::-1]
    if mode == "shared":          # b shares an edge / vertices with a
        k = rng.randrange(len(a))
        p, q = a[k], a[(k + 1) % len(a)]
        for _ in range(50):
            r = (F(rng.randint(-R, R)), F(rng.randint(-R, R)))
            if G.orient(p, q, r) != 0:
                return a, [p, q, r]
    return a, G.lattice_polygon(rng, R=R)


def cases(ctx):
    rng = ctx.rng
    n = ctx.n(60, 1500)
    modes = ["gp"] * 6 + ["same", "rev", "shared", "shared"]
    for i in range(n):
        a, b = _pair(rng, modes[i % len(modes)])
        num = ["frac", "int", "float"][i % 3] if all(x.denominator == 1 for p in a + b for x in p) else "frac"
        yield {"a": G.verts_to_jordan(a), "b": G.verts_to_jordan(b), "num": num, "mode": modes[i % len(modes)]}
    for i in range(ctx.n(20, 400)):
        # nearly parallel crossing edges (the exact solver must not treat a small determinant as "parallel")
        eps = F(1, rng.choice([10 ** 4, 10 ** 6, 10 ** 7]))
        a = [(F(0), F(0)), (F(10), F(0)), (F(10), F(6)), (F(0), F(6))]
        x0 = F(rng.randint(-3, 2))
        b = [(x0, -eps * rng.randint(1, 9)), (x0 + 12, eps * rng.randint(1, 9)), (x0 + 12, F(-3)), (x0, F(-3))]
        yield {"a": G.verts_to_jordan(a), "b": G.verts_to_jordan(G.ccw(b)), "num": "frac", "mode": "gp"}
    for i in range(ctx.n(20, 400)):
        # the same curve objects queried, moved in place, queried again (bounding boxes must follow the curve)
        a, b = _pair(rng, "gp")
        v = (F(rng.randint(-15, 15)), F(rng.randint(-15, 15)))
        yield {"a": G.verts_to_jordan(a), "b": G.verts_to_jordan(b), "num": "frac", "mode": "moved", "mv": v, "warm": i % 3}
    # a parabola arc (one quadratic segment) against polygons, crossings known in closed form (mostly at irrational
    # parameters); exact (int/Fraction) and float control points
    from .. import curved as C
    for i in range(ctx.n(10, 200)):
        c = C.cap_case(rng)
        if c:
            yield dict(c, num=["frac", "float", "int"][i % 3])
    # a circle of few arcs, ROTATED (so that arcs bulge beyond their end points in every direction) and moved, against
    # polygons: crossings of every arc with every edge in closed form
    for i in range(ctx.n(60, 400)):
        r, c = rng.choice([1.0, 1.5, 2.0]), [rng.randint(-3, 3) / 2, rng.randint(-3, 3) / 2]
        if i % 3 == 0:
            poly = [[x / 10, y / 10] for x, y in ((rng.randint(-35, 35), rng.randint(-35, 35)) for _ in range(rng.choice([3, 4, 4])))]
        else:
            # a rectangle that clips a thin cap off the circle in one of eight directions (the extreme points of the
            # circle in that direction lie on the bulge of an arc, not at its end points)
            import math
            phi = math.radians(45 * (i % 8))
            ux, uy = math.cos(phi), math.sin(phi)
            d0, d1, w = r * rng.choice([0.9, 0.95, 0.985]), 3 * r, 2 * r
            poly = [[c[0] + d * ux - t * uy, c[1] + d * uy + t * ux] for d, t in ((d0, -w), (d1, -w), (d1, w), (d0, w))]
        yield {"rotcircle": rng.choice([4, 5, 6, 8]), "angle": rng.choice([10, 25, 40, 60, 75, 100, 130, 200]) + rng.randint(0, 4),
               "c": c, "r": r, "poly": poly, "cw": i % 2 == 1, "pcw": i % 4 >= 2}
    for i in range(ctx.n(3, 40)):
        yield {"curved": True, "r": rng.choice([1.0, 1.5, 0.8]), "c": [rng.uniform(-0.3, 0.3), rng.uniform(-0.3, 0.3)],
               "side": rng.choice([1.7, 2.2, 1.3]), "nd": rng.choice([4, 8, 16])}


def nontrivial(case):
    if case.get("curved") or "cap" in case or "rotcircle" in case:
        return True
    return G.count_crossings([case["a"]], [case["b"]]) > 0


def _exact_rows(ja, jb):
    """independent exact crossing finder for polygons: all (a,b,u,v) with a unique common point"""
    rows = set()
    for a, sa in enumerate(ja):
        for b, sb in enumerate(jb):
            (p0, p1), (q0, q1) = (sa[0], sa[-1]), (sb[0], sb[-1])
            # Cramer on p0 + u (p1-p0) = q0 + v (q1-q0)
            d1 = (p1[0] - p0[0], p1[1] - p0[1])
            d2 = (q1[0] - q0[0], q1[1] - q0[1])
            den = d1[0] * d2[1] - d1[1] * d2[0]
            if den == 0:
                continue
            w = (q0[0] - p0[0], q0[1] - p0[1])
            u = (w[0] * d2[1] - w[1] * d2[0]) / den
            v = (w[0] * d1[1] - w[1] * d1[0]) / den
            if 0 <= u <= 1 and 0 <= v <= 1:
                rows.add((a, b, u, v))
    return rows


def _cap(ctx, case):
    from .. import curved as C
    fails = []
    a, h = case["cap"]
    num = case["num"]
    conv = {"frac": F, "int": (lambda x: int(x) if F(x).denominator == 1 else F(x)), "float": float}[num]
    JA = I.JordanCurve.from_ctrlpoints([[(conv(-a), conv(0)), (conv(a), conv(0))], [(conv(a), conv(0)), (conv(0), conv(2 * h)), (conv(-a), conv(0))]])
    JB = I.JordanCurve.from_vertices([(conv(p[0]), conv(p[1])) for p in case["poly"]])
    ctx.count("cap:" + num)
    try:
        with U.time_limit(120):
            ri = I.outcome(lambda: (JA.intersection(JB), JB.intersection(JA)))
    except U.Timeout:
        return [Fail(kind="O", what="curved intersection does not return (120 s)")]
    if ri[0] != "ok":
        return [Fail(kind="O", what="curved intersection raised", impl=ri)]
    rows, swapped = ri[1]
    vs = [(float(p[0]), float(p[1])) for p in case["poly"]]
    want = []                                   # (segment of A, edge of B, parameter on A, parameter on B)
    for k in range(len(vs)):
        for s_, kind, t in C._crossings(float(a), float(h), vs[k], vs[(k + 1) % len(vs)]):
            want.append((0 if kind == "base" else 1, k, t, s_))
    got = [r for r in rows if r[2] is not None]
    if any(r[2] is None for r in rows) or any(r[2] is None for r in swapped):
        fails.append(Fail(kind="O", what="a pair of different segments is reported as 'equal segments' (None row)",
                          impl=[repr(r) for r in rows if r[2] is None][:3]))
    for (ia, ib, u, v) in got:
        p, q = JA.segments[ia](u), JB.segments[ib](v)
        if abs(float(p[0]) - float(q[0])) > 1e-6 or abs(float(p[1]) - float(q[1])) > 1e-6:
            fails.append(Fail(kind="O", what="reported pair is not a common point", row=repr((ia, ib, u, v))))
    def matches(w, r):
        return w[0] == r[0] and w[1] == r[1] and abs(w[2] - float(r[2])) < 1e-6 and abs(w[3] - float(r[3])) < 1e-6
    missing = [w for w in want if not any(matches(w, r) for r in got)]
    extra = [r for r in got if not any(matches(w, r) for w in want)]
    if missing:
        fails.append(Fail(kind="O", what="%d of %d crossings of the parabola arc with the polygon are not reported" % (len(missing), len(want)),
                          expected=[list(w) for w in missing[:3]]))
    if extra:
        fails.append(Fail(kind="O", what="reported crossings that do not exist", impl=[repr(r) for r in extra[:3]]))
    if len(got) % 2:
        fails.append(Fail(kind="O", what="odd number of crossings between two closed curves in general position", impl=len(got)))
    sw = sorted((r[1], r[0], float(r[3]), float(r[2])) for r in swapped if r[2] is not None)
    me = sorted((r[0], r[1], float(r[2]), float(r[3])) for r in got)
    if len(sw) != len(me) or any(a_[:2] != b_[:2] or abs(a_[2] - b_[2]) > 1e-6 or abs(a_[3] - b_[3]) > 1e-6 for a_, b_ in zip(sw, me)):
        fails.append(Fail(kind="O", what="B & A is not the swap of A & B"))
    return fails


def _quad_line(P, a, b):
    """crossings of the quadratic Bezier with control points P and the straight segment a->b:
    [(t, s)] and a flag telling whether some root is too close to tangency / to an end to be counted safely"""
    import math
    nx, ny = -(b[1] - a[1]), b[0] - a[0]
    g = [nx * (p[0] - a[0]) + ny * (p[1] - a[1]) for p in P]          # signed distances of the control points to the line
    qa, qb, qc = g[0] - 2 * g[1] + g[2], 2 * (g[1] - g[0]), g[0]
    out, safe = [], True
    roots = []
    if abs(qa) < 1e-12:
        if abs(qb) > 1e-12:
            roots = [-qc / qb]
    else:
        disc = qb * qb - 4 * qa * qc
        if abs(disc) < 1e-4 * (qb * qb + abs(4 * qa * qc) + 1e-12):
            safe = False
        if disc > 0:
            r = math.sqrt(disc)
            roots = [(-qb - r) / (2 * qa), (-qb + r) / (2 * qa)]
    L2 = (b[0] - a[0]) ** 2 + (b[1] - a[1]) ** 2
    for t in roots:
        x = P[0][0] * (1 - t) ** 2 + 2 * P[1][0] * t * (1 - t) + P[2][0] * t * t
        y = P[0][1] * (1 - t) ** 2 + 2 * P[1][1] * t * (1 - t) + P[2][1] * t * t
        sp = ((x - a[0]) * (b[0] - a[0]) + (y - a[1]) * (b[1] - a[1])) / L2
        if min(abs(t), abs(t - 1), abs(sp), abs(sp - 1)) < 1e-3:
            safe = False
        if 0 < t < 1 and 0 < sp < 1:
            out.append((t, sp))
    return out, safe


def _rotcircle(ctx, case):
    import math
    fails = []
    vs = [(float(x), float(y)) for x, y in case["poly"]]
    if not G.is_simple_polygon([(F(x), F(y)) for x, y in vs]):
        return fails
    C = I.Primitive.circle(case["r"], (0.0, 0.0), case["rotcircle"])
    C.rotate(case["angle"], degrees=True)
    C.move(case["c"][0], case["c"][1])
    JA = C.jordans[0]
    if case.get("cw"):
        JA = ~JA                       # travelled clockwise (a hole boundary, the operand of a subtraction)
    if case.get("pcw"):
        vs = vs[::-1]
    ctx.count("rotcircle:%s circle, %s polygon" % ("cw" if case.get("cw") else "ccw", "cw" if case.get("pcw") else "ccw"))
    JB = I.JordanCurve.from_vertices(vs)
    want, safe = [], True
    for ia, sg in enumerate(JA.segments):
        P = [(float(p[0]), float(p[1])) for p in sg.ctrlpoints]
        if len(P) != 3:
            return fails
        for ib in range(len(vs)):
            rs, ok = _quad_line(P, vs[ib], vs[(ib + 1) % len(vs)])
            safe = safe and ok
            want += [(ia, ib, t, sp) for t, sp in rs]
    if not safe:
        ctx.count("rotcircle:skipped (near tangency / ends)")
        return fails
    ctx.count("rotcircle:crossings=%d" % len(want))
    try:
        with U.time_limit(120):
            ri = I.outcome(lambda: (JA.intersection(JB), JB.intersection(JA)))
    except U.Timeout:
        return [Fail(kind="O", what="curved intersection does not return (120 s)")]
    if ri[0] != "ok":
        return [Fail(kind="O", what="curved intersection raised", impl=ri)]
    rows, swapped = ri[1]
    got = [r for r in rows if r[2] is not None]
    gsw = [r for r in swapped if r[2] is not None]
    if len(got) != len(rows) or len(gsw) != len(swapped):
        fails.append(Fail(kind="O", what="a pair of different segments is reported as 'equal segments' (None row)",
                          impl=[repr(r) for r in rows if r[2] is None][:3]))
    match = lambda w, r: w[0] == r[0] and w[1] == r[1] and abs(w[2] - float(r[2])) < 1e-5 and abs(w[3] - float(r[3])) < 1e-5
    missing = [w for w in want if not any(match(w, r) for r in got)]
    extra = [r for r in got if not any(match(w, r) for w in want)]
    if missing:
        fails.append(Fail(kind="O", what="%d of %d crossings of the rotated circle with the polygon are not reported" % (len(missing), len(want)),
                          expected=[list(w) for w in missing[:3]]))
    if extra:
        fails.append(Fail(kind="O", what="reported crossings that do not exist", impl=[repr(r) for r in extra[:3]]))
    msw = [w for w in want if not any(match((w[1], w[0], w[3], w[2]), r) for r in gsw)]
    if msw or len(gsw) != len(got):
        fails.append(Fail(kind="O", what="B & A is not the swap of A & B (%d vs %d rows)" % (len(gsw), len(got))))
    return fails


def check(ctx, case):
    fails = []
    if "cap" in case:
        return _cap(ctx, case)
    if "rotcircle" in case:
        return _rotcircle(ctx, case)
    if case.get("curved"):
        C = I.Primitive.circle(case["r"], tuple(case["c"]), case["nd"])
        S = I.Primitive.square(case["side"])
        ja, jb = C.jordans[0], S.jordans[0]
        with U.time_limit(300):
            ri = I.outcome(lambda: ja.intersection(jb))
        ctx.count("curved")
        if ri[0] != "ok":
            fails.append(Fail(kind="O", what="curved intersection raised", impl=ri))
            return fails
        rows = ri[1]
        for (a, b, u, v) in rows:
            if u is None:
                continue
            if not (0 <= a < len(ja.segments) and 0 <= b < len(jb.segments) and 0 <= u <= 1 and 0 <= v <= 1):
                fails.append(Fail(kind="O", what="curved: row out of range", row=repr((a, b, u, v))))
                continue
            p, q = ja.segments[a](u), jb.segments[b](v)
            if abs(float(p[0]) - float(q[0])) > 1e-5 or abs(float(p[1]) - float(q[1])) > 1e-5:
                fails.append(Fail(kind="O", what="curved: A[a](u) != B[b](v)", row=repr((a, b, u, v))))
        inner = [r for r in rows if r[2] is not None and (0 < r[2] < 1 or 0 < r[3] < 1)]
        ctx.count("curved:crossings=%d" % len(inner))
        # independent count: each quadratic arc against each axis-parallel edge of the square, solved in closed form
        import math
        h = case["side"] / 2
        cnt = 0
        safe = True
        for sgm in ja.segments:
            P = [(float(q[0]), float(q[1])) for q in sgm.ctrlpoints]
            for axis in (0, 1):
                for val in (-h, h):
                    c0, c1, c2 = P[0][axis], P[1][axis], P[2][axis]
                    # B(t) = c0 (1-t)^2 + 2 c1 t(1-t) + c2 t^2 = val
                    qa, qb, qc = c0 - 2 * c1 + c2, 2 * (c1 - c0), c0 - val
                    disc = qb * qb - 4 * qa * qc
                    if abs(disc) < 1e-6:
                        safe = False
                    if disc <= 0 or abs(qa) < 1e-12:
                        continue
                    for t in ((-qb + math.sqrt(disc)) / (2 * qa), (-qb - math.sqrt(disc)) / (2 * qa)):
                        if min(abs(t), abs(t - 1)) < 1e-4:
                            safe = False
                        if 0 < t < 1:
                            o = 1 - axis
                            w = P[0][o] * (1 - t) ** 2 + 2 * P[1][o] * t * (1 - t) + P[2][o] * t * t
                            if abs(abs(w) - h) < 1e-4:
                                safe = False
                            if -h < w < h:
                                cnt += 1
        if safe and cnt != len(inner):
            fails.append(Fail(kind="O", what="curved: number of transversal crossings differs from the closed-form count",
                              impl=len(inner), expected=cnt))
        if len(inner) % 2:
            fails.append(Fail(kind="O", what="curved: odd number of crossings", impl=len(inner)))
        return fails
    ja, jb, num = case["a"], case["b"], case["num"]
    exact = num != "float"
    ctx.count("mode:" + case["mode"])
    ctx.count("num:" + num)
    A, B = I.mk_jordan(ja, num), I.mk_jordan(jb, num)
    if case["mode"] == "moved":
        # warm whatever the curve may cache, then move it; everything below is about the moved curve
        v = case["mv"]
        A = I.mk_jordan([[(p[0] - v[0], p[1] - v[1]) for p in sg] for sg in ja], num)     # starts elsewhere ...
        if case["warm"] == 0:
            A.intersection(B)
        elif case["warm"] == 1:
            (F(0), F(0)) in A
            A.box()
        else:
            A & B
            float(A)
        A.move(v[0], v[1])                                                                  # ... and is moved into place
    truth = _exact_rows(ja, jb)

    def conv(rows):
        return [(a, b, None if u is None else I.num(u), None if v is None else I.num(v)) for a, b, u, v in rows]

    def same_rows(r1, r2):
        if len(r1) != len(r2):
            return False
        for x, y in zip(r1, r2):
            if x[:2] != y[:2] or (x[2] is None) != (y[2] is None):
                return False
            if x[2] is not None and not (U.num_same(x[2], y[2], exact) and U.num_same(x[3], y[3], exact)):
                return False
        return True

    full = None
    for eb in (True, False):
        for ep in (True, False):
            ri = I.outcome(lambda: conv(A.intersection(B, equal_beziers=eb, end_points=ep)))
            rm = ctx.model.intersection(ja, jb, eb, ep)
            ctx.k_cases += 1
            if U.res_same(ri, rm, same_rows):
                ctx.k_agreed += 1
            else:
                fails.append(Fail(kind="K", what="intersection matrix differs from model", flags=[eb, ep], impl=ri, model=rm))
            if ri[0] != "ok":
                fails.append(Fail(kind="O", what="intersection raised on polygons", flags=[eb, ep], impl=ri))
                continue
            rows = ri[1]
            if eb and ep:
                full = rows
            # documented filters relative to the full matrix
            if full is not None:
                want = [r for r in full if (eb or r[2] is not None) and
                        (ep or r[2] is None or 0 < r[2] < 1 or 0 < r[3] < 1)]
                if not same_rows(sorted(rows, key=repr), sorted(want, key=repr)):
                    fails.append(Fail(kind="O", what="flags do not filter the documented entries", flags=[eb, ep], impl=rows, expected=want))
    if full is not None and exact:
        # encoding, soundness, completeness against the independent exact finder
        got = set()
        for (a, b, u, v) in full:
            if not (0 <= a < len(ja) and 0 <= b < len(jb)):
                fails.append(Fail(kind="O", what="row index out of range", row=(a, b, u, v)))
                continue
            if u is None:
                if [tuple(p) for p in ja[a]] != [tuple(p) for p in jb[b]]:
                    fails.append(Fail(kind="O", what="(None, None) row for segments that are not identical", row=(a, b)))
                continue
            if not (0 <= u <= 1 and 0 <= v <= 1) or O.bez(ja[a], u) != O.bez(jb[b], v):
                fails.append(Fail(kind="O", what="A[a](u) != B[b](v) or parameter out of [0,1]", row=(a, b, u, v)))
            got.add((a, b, u, v))
        ident = {(a, b) for (a, b, u, v) in full if u is None}
        missing = {r for r in truth if r not in got and (r[0], r[1]) not in ident}
        if missing:
            fails.append(Fail(kind="O", what="a crossing is missing from the matrix", missing=sorted(missing)[:4]))
        # number of transversal crossings is even (general position only)
        if case["mode"] == "gp" and G.general_position([ja], [jb]):
            if len([r for r in full if r[2] is not None]) % 2:
                fails.append(Fail(kind="O", what="odd number of transversal crossings", n=len(full)))
        # swap
        rs = I.outcome(lambda: conv(B.intersection(A)))
        want = sorted([(b, a, v, u) for (a, b, u, v) in full], key=repr)
        if rs[0] != "ok" or not same_rows(sorted(rs[1], key=repr), want):
            fails.append(Fail(kind="O", what="B.intersection(A) is not the swapped matrix", impl=rs, expected=want))
        # A & B = both flags off
        ra = I.outcome(lambda: conv(A & B))
        rb = I.outcome(lambda: conv(A.intersection(B, equal_beziers=False, end_points=False)))
        if ra != rb:
            fails.append(Fail(kind="O", what="A & B differs from intersection(.., False, False)", impl=ra, expected=rb))
    return fails
