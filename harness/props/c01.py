"""C01 -- boolean operators compute the set-theoretic result, point by point."""
from fractions import Fraction as F

from .. import gen as G, impl as I, oracle as O, util as U, opcases as OC
from ..core import Fail

PID = "C01"
RULE = ("environments of 1-3 shapes of all kinds (simple bounded/unbounded, holes, several components, Empty, Whole) with "
        "pairwise boundaries in general position (exact test: only transversal crossings), int / Fraction coordinates "
        "(and a float stream for single | & -), expressions over | & - ^ ~ + * neg up to depth 3; judged at one point of "
        "every cell of the edge arrangement of all operands (complete for polygons); operands that share one complete boundary curve ((O-K)-K, (O-K)|K, (O-K)&~K, K-(O-K), ... for a polygon O with holes); curved stream: the cap under a parabola (one quadratic segment) "
        "against polygons in general position, | & - both ways, pairs of strictly convex polygons (the range of C01_*_sound_convex), closed-form membership oracle, half of the cases with a "
        "polygon corner inside the lens between an arc piece and its chord; a curated curved corpus (circle vs square / "
        "circle) runs in the thorough tier; non-trivial = the operand boundaries cross (>= 2 crossings) or an "
        "operand has a hole / second component, and no operand is Empty/Whole; distinct = SHA-1 of the case")
PROOF_STATUS = ("Props/C01.v: C01_expressions (all expressions from one-step soundness of | & ~), C01_never_hangs "
                "(all inputs); C01_cellwise: the value of every expression is a union of cells of the arrangement of the "
                "operands' boundaries (boundary inclusion + constancy along polylines avoiding them, exact joins decidable per "
                "instance); C01_union_sound / C01_intersection_sound / C01_difference_sound: one-step soundness of | & - for two simple ccw polygons "
                "in the recombination branch (ray-sum argument; hypotheses decidable per instance except simplicity of the "
                "operands, which is PROVED for strictly convex polygons: C01_*_sound_convex have only evaluated hypotheses); open: holed / multi-component operands in that branch (C01_partial)")
TRUSTED_EXTRA = ["oracle: exact slab sampling of the edge arrangement + crossing-number regions (harness/oracle.py), cross-checked against the extracted Spec on a sample"]


def cases(ctx):
    yield from OC.gen_cases(ctx, ctx.n(36, 900), ctx.n(16, 500))
    # operands sharing one complete boundary curve: (O-K)-K, (O-K)|K, (O-K)&~K, ...
    yield from OC.law_cases(ctx.rng, ctx.n(16, 240))
    # two strictly convex counter-clockwise polygons (triangles, convex quadrilaterals / pentagons) whose boundaries
    # cross: for these C01_*_sound_convex have no hypothesis that is not evaluated (simple01 is proved)
    rng = ctx.rng
    nacc = 0
    for i in range(ctx.n(12, 200)):
        pair = [_convex_polygon(rng, rng.choice([3, 3, 4, 5])) for _ in range(2)]
        if None in pair:
            continue
        env = [("S", G.verts_to_jordan(vs)) for vs in pair]
        if OC.env_general_position(env) and OC.crossing_count(env) >= 2:
            yield {"env": env, "expr": ("|&-"[nacc % 3], ("var", 0), ("var", 1)), "num": "frac", "convex": pair}
            nacc += 1
    # curved operand with a closed-form oracle: the cap under a parabola against polygons (float data; no ^: F17)
    from .. import curved as C
    for i in range(ctx.n(12, 240)):
        case = C.lens_case(ctx.rng) if i % 2 == 0 else C.cap_case(ctx.rng)
        if case:
            for op in ("|", "&", "-", "B-A"):
                yield dict(case, op=op)
    if ctx.thorough():
        rng = ctx.rng
        for i in range(24):
            yield {"curved": True, "r": rng.choice([1.0, 1.5, 0.8]), "c": [rng.choice([0.0, 0.31, -0.27]), rng.choice([0.0, 0.22])],
                   "side": rng.choice([1.7, 2.2, 1.3]), "nd": rng.choice([8, 16]), "op": "|&-"[i % 3]}


def _convex_polygon(rng, n):
    """n points in strictly convex position, counter-clockwise (rational points near a circle, sorted by angle)"""
    import math
    for _ in range(50):
        c = (rng.randint(-4, 4), rng.randint(-4, 4))
        r = rng.randint(3, 7)
        angs = sorted(rng.uniform(0, math.tau) for _ in range(n))
        vs = [(F(round((c[0] + r * math.cos(t)) * 4), 4), F(round((c[1] + r * math.sin(t)) * 4), 4)) for t in angs]
        if len(set(vs)) == n and all(G.orient(vs[i], vs[j], vs[k]) > 0 for i in range(n) for j in range(i + 1, n) for k in range(j + 1, n)):
            return vs
    return None


def nontrivial(case):
    if case.get("curved") or "cap" in case or "law" in case:
        return True
    return OC.nontrivial(case)


def _curved(ctx, case):
    import math
    fails = []
    C = I.Primitive.circle(case["r"], tuple(case["c"]), case["nd"])
    S = I.Primitive.square(case["side"])
    op = case["op"]
    try:
        with U.time_limit(300):
            ri = I.outcome(lambda: {"|": lambda: C | S, "&": lambda: C & S, "-": lambda: C - S}[op]())
    except U.Timeout:
        return [Fail(kind="O", what="curved operator hangs", op=op)]
    ctx.count("curved:" + op)
    if ri[0] != "ok":
        return [Fail(kind="O", what="curved operator raised", op=op, impl=ri)]
    R = ri[1]
    r, (cx, cy), h = case["r"], case["c"], case["side"] / 2
    hh = math.tan(math.pi / case["nd"])
    lo, hi = r * math.cos(math.pi / case["nd"]), r * math.sqrt(1 + hh ** 4 / (4 * (1 + hh * hh)))
    rng = ctx.rng
    bad = 0
    for _ in range(60):
        x, y = rng.uniform(-2, 2), rng.uniform(-2, 2)
        d = math.hypot(x - cx, y - cy)
        if lo - 2e-3 <= d <= hi + 2e-3 or abs(abs(x) - h) < 2e-3 or abs(abs(y) - h) < 2e-3:
            continue
        inc, ins = d < lo, (abs(x) < h and abs(y) < h)
        truth = {"|": inc or ins, "&": inc and ins, "-": inc and not ins}[op]
        got = (x, y) in R if not isinstance(R, (I.EmptyShape, I.WholeShape)) else isinstance(R, I.WholeShape)
        if bool(got) != truth:
            bad += 1
    if bad:
        fails.append(Fail(kind="O", what="curved operator result wrong at %d sample points" % bad, op=op))
    return fails


def _cap(ctx, case):
    from .. import curved as C
    op = case["op"]
    A, B = C.mk(case)
    f = {"|": lambda: A | B, "&": lambda: A & B, "-": lambda: A - B, "B-A": lambda: B - A}[op]
    truth = {"|": lambda a, b: a or b, "&": lambda a, b: a and b, "-": lambda a, b: a and not b, "B-A": lambda a, b: b and not a}[op]
    ctx.count("cap:" + op)
    try:
        with U.time_limit(120):
            r = I.outcome(f)
    except U.Timeout:
        return [Fail(kind="O", what="operator on the parabola cap does not return (120 s)", op=op)]
    if r[0] != "ok":
        return [Fail(kind="O", what="operator raised on a parabola cap and a polygon in general position", op=op, impl=r)]
    sd = I.shape_data(r[1])
    pts = C.sample_points(case, sd, ctx.rng)
    bad = [p for p, ia, ib in pts if C.region_float(sd, p) != truth(ia, ib)]
    if bad:
        return [Fail(kind="O", what="result is not the set-theoretic combination at %d of %d sample points (closed-form oracle)" % (len(bad), len(pts)),
                     op=op, first=list(bad[0]))]
    return []


def check(ctx, case):
    if case.get("curved"):
        return _curved(ctx, case)
    if "cap" in case:
        return _cap(ctx, case)
    if "law" in case:
        ctx.count("law:" + case["law"])
        r, h, K, truth = OC.law_run(case)
        if r[0] != "ok":
            return [Fail(kind="O", what="%s raised (O a polygon, K one of its holes)" % case["law"], impl=r)]
        wrong = OC.law_wrong_points(case, I.shape_data(r[1]))
        if wrong:
            return [Fail(kind="O", what="%s is not the set-theoretic result at %d sample points" % (case["law"], len(wrong)), first=wrong[0])]
        return []
    fails = []
    env, e, num = case["env"], case["expr"], case["num"]
    exact = num != "float"
    ctx.count("num:" + num)
    ctx.count("depth:%d" % _depth(e))
    for s in env:
        ctx.count("kind:" + U.shape_kind(s))
    ri, objs = OC.run_impl(case)
    if ri[0] == "hang":
        return [Fail(kind="O", what="operator does not return (60 s)", expr=G.expr_str(e))]
    envd = OC.env_exact(case, objs) if not exact else env
    gp = OC.env_general_position(envd)
    lin = OC.linear(e)
    if ri[0] != "ok":
        if gp:
            fails.append(Fail(kind="O", what="operator raised on operands in general position", expr=G.expr_str(e), impl=ri))
        resd = None
    else:
        resd = I.shape_data(ri[1])
    # ---- correspondence with the model (exact data only) ----
    if exact:
        rm = ctx.model.eval_expr(env, e)
        ctx.k_cases += 1
        rmm = ("ok", rm[1][1]) if rm[0] == "ok" else rm
        rii = ("ok", resd) if resd is not None else ri
        if I.ROUNDINGS[0] and False:
            pass
        if U.res_same(rii, rmm, lambda a, b: U.shape_same(a, b, True)):
            ctx.k_agreed += 1
        else:
            fails.append(Fail(kind="K", what="operator result differs from the model", expr=G.expr_str(e), impl=rii, model=rmm))
    # ---- the property itself: pointwise set semantics ----
    if resd is not None:
        pts = OC.sample_points(envd, None if exact else F(1, 10000))
        wrong = OC.pointwise_wrong(envd, e, resd, pts)
        # where theorem C01_union_sound / C01_intersection_sound applies (two simple counter-clockwise polygons, a
        # single | or &, exact data): its decidable hypotheses are evaluated by the extracted model at sample
        # points, and its conclusion -- the result's winding numbers add up to the union / intersection indicator
        # -- is compared with the implementation's result
        if exact and e[0] in ("|", "&", "+", "*", "-") and e[1] == ("var", 0) and e[2] == ("var", 1) and len(env) == 2 \
                and all(s_[0] == "S" and O.ccw(s_[1]) for s_ in env):
            union = e[0] in ("|", "+")
            name = "union" if union else ("difference" if e[0] == "-" else "intersection")
            for p in pts[:: max(1, len(pts) // 4)][:4]:
                if e[0] == "-":
                    holds = ctx.model.diff_hyps(env[0][1], env[1][1], p)
                else:
                    holds = ctx.model.sound_hyps(env[0][1], env[1][1], union, not union, p)
                ctx.count("theorem C01_%s_sound hypotheses: %s" % (name, "hold" if holds else "fail (vertex line / containment branch)"))
                if holds:
                    ia, ib = O.region(env[0], p) == "in", O.region(env[1], p) == "in"
                    predicted = (ia or ib) if union else ((ia and not ib) if e[0] == "-" else (ia and ib))
                    got = sum(O.wn(j, p) for j in O.shape_jordans(resd)) if resd[0] not in "EW" else (1 if resd[0] == "W" else 0)
                    if (got == 1) != predicted or got not in (0, 1):
                        fails.append(Fail(kind="K", what="the conclusion of C01_%s_sound (hypotheses hold) is not what the implementation returned" % name,
                                          p=p, impl=got, model=predicted))
        if case.get("convex") and exact:
            va, vb = case["convex"]
            op = e[0]
            for p in pts[:: max(1, len(pts) // 4)][:4]:
                ca, cb, hu, hi, hd, ja, jb = ctx.model.convex_hyps(va, vb, p)
                if not (ca and cb) or [list(map(tuple, sg)) for sg in ja] != [list(map(tuple, sg)) for sg in env[0][1]] \
                        or [list(map(tuple, sg)) for sg in jb] != [list(map(tuple, sg)) for sg in env[1][1]]:
                    fails.append(Fail(kind="K", what="convex_ccw_b rejects a strictly convex counter-clockwise polygon, or poly_of is not the curve given to the implementation",
                                      model=[ca, cb]))
                    break
                holds = {"|": hu, "&": hi, "-": hd}[op]
                ctx.count("theorem C01_%s_sound_convex (no unevaluated hypothesis): %s" % ({"|": "union", "&": "intersection", "-": "difference"}[op],
                                                                                      "covers the point" if holds else "hypotheses fail (vertex line)"))
        ctx.count("sample_points", len(pts))
        if wrong:
            fails.append(Fail(kind="O", what="result is not the set-theoretic combination at %d of %d sample points" % (len(wrong), len(pts)),
                              expr=G.expr_str(e), first=[wrong[0][0], wrong[0][1], wrong[0][2]]))
        # the implementation's own membership answers on its result agree with the oracle's reading of the result
        R = ri[1]
        for p in pts[:: max(1, len(pts) // 6)]:
            rr = O.region(resd, p)
            if rr in ("in", "out"):
                got = I.outcome(lambda: bool((p[0], p[1]) in R) if hasattr(R, "contains_point") or True else None)
                if got != ("ok", rr == "in"):
                    fails.append(Fail(kind="O", what="`p in result` disagrees with the region of the result", p=p, impl=got, expected=rr))
                    break
    return fails


def _depth(e):
    if e[0] == "var":
        return 0
    return 1 + max(_depth(a) for a in e[1:])
