"""C12 -- results do not depend on position, orientation or unit of length."""
import math
from fractions import Fraction as F

from .. import gen as G, impl as I, oracle as O, util as U, opcases as OC
from ..core import Fail

PID = "C12"
RULE = ("general-position pairs of shapes of all kinds x similarity maps T = translation (up to 1e6) o rotation (exact "
        "rational points of the unit circle, so the transformed data stay rational) o uniform scaling (1e-3 .. 1e5), "
        "applied exactly to the input data: T(A) op T(B) versus T(A op B) for | & - ^ ~, T(p) in T(A), T(B) in T(A), "
        "areas / s^2; exact stream (Fractions) and a float stream; a fine-feature stream (a polygon and its copy shifted by 1e-4..5e-4, translated up to 1e6, exact data); feature sizes after T are kept >= 1e-2 (below that the "
        "absolute tolerances decide: known findings F13 / F19, witnesses only); non-trivial = the boundaries cross and T "
        "is not the identity; distinct = SHA-1")
PROOF_STATUS = ("Props/C12.v: crossing parameters under every invertible affine map, evaluation, region under translation / "
                "positive scaling, areas by det, tolerance scaling lemma (the absolute tolerances are the scale dependence)")

ROTS = [(F(1), F(0)), (F(3, 5), F(4, 5)), (F(0), F(1)), (F(-5, 13), F(12, 13)), (F(-1), F(0)), (F(8, 17), F(-15, 17)), (F(20, 29), F(21, 29))]
SCALES = [F(1, 1000), F(1, 100), F(1, 8), F(1), F(3), F(1000), F(100000)]
MOVES = [(F(0), F(0)), (F(3), F(-7)), (F(1, 3), F(2, 7)), (F(1000), F(-1000)), (F(10 ** 6), F(10 ** 6)), (F(-999983), F(12345, 7))]


def cases(ctx):
    rng = ctx.rng
    for i in range(ctx.n(8, 200)):
        env = shallow_env(rng)
        if OC.env_general_position(env) and OC.crossing_count(env) >= 2:
            yield {"env": env, "op": "|&-^"[i % 4], "k": rng.choice([F(1, 1000), F(1, 2000), F(1, 400), F(1)]), "rot": rng.choice(ROTS),
                   "mv": rng.choice(MOVES[:3]), "num": "frac", "shallow": True}
    # fine features far from the origin: a unit-size polygon and its copy shifted by 1/2000 .. 1/10000 (long edges,
    # vertices and crossings 1e-4 .. 1e-3 apart), moved up to 1e6 away -- exact data, so nothing may change
    for i in range(ctx.n(9, 150)):
        vs = G.ccw(G.star_polygon(rng, n=rng.randint(3, 5), R=6, den=1, center=(0, 0), rmin=0.6))
        vs = [(p[0] / 6, p[1] / 6) for p in vs]
        d = F(1, rng.choice([2000, 5000, 10000]))
        e = (d, d * rng.choice([1, 2, -1]))
        env = [("S", G.verts_to_jordan(vs)), ("S", G.verts_to_jordan([(p[0] + e[0], p[1] + e[1]) for p in vs]))]
        if OC.env_general_position(env) and OC.crossing_count(env) >= 2:
            yield {"env": env, "op": "|&-"[i % 3], "k": F(1), "rot": ROTS[0], "mv": rng.choice(MOVES[3:] + [(F(-10 ** 6), F(10 ** 6))]),
                   "num": "frac", "fine": True}
    for i in range(ctx.n(30, 700)):
        env = OC.gen_env(rng, 2, R=rng.choice([8, 12]), den=rng.choice([1, 1, 2]))
        if env is None:
            continue
        k = rng.choice(SCALES)
        # feature size after scaling: shortest edge and closest approach of crossings to vertices stay >= 1e-2
        if _min_feature(env) * k < F(1, 400):
            k = F(1, 400) / _min_feature(env) if k < 1 else F(1)      # as small as the tolerance zone allows (edges >= 2.5e-3)
            k = F(k).limit_denominator(10 ** 6)
        num = "float" if i % 4 == 3 else "frac"
        # float data: ^ joins two halves that touch at crossing points which are no longer bit-identical
        # (inexact-contact class, known finding F17 under C01): the float stream uses | & - ~ only
        ops = list("|&-^") + ["~", "in", "pt"] if num == "frac" else list("|&-") + ["~", "in", "pt"]
        case = {"env": env, "op": rng.choice(ops), "k": k, "rot": rng.choice(ROTS), "mv": rng.choice(MOVES), "num": num}
        if i % 3 == 1 and num == "frac":
            # T applied by the library itself, in place, to operands that have already been used once (scale and
            # move are exact on Fractions; rotate works in floats, so the in-place stream uses no rotation)
            case["rot"] = ROTS[0]
            case["inplace"] = True
            case["order"] = (i // 3) % 2
        yield case


def shallow_env(rng):
    """a rectangle and a quadrilateral whose long edges cross the rectangle's sides at a small angle (slope 1/20..1/60):
    after scaling, |edge_a| |edge_b| sin(angle) becomes tiny although every edge stays well above the tolerances"""
    m = rng.choice([20, 30, 40, 60])
    a = [(F(0), F(0)), (F(10), F(0)), (F(10), F(6)), (F(0), F(6))]
    x0 = F(rng.randint(1, 3))
    b = [(x0, F(-1, 10)), (x0 + 6, F(-1, 10) + F(6, m) + F(1, 10)), (x0 + 6, F(-3)), (x0, F(-3))]
    return [("S", G.verts_to_jordan(G.ccw(a))), ("S", G.verts_to_jordan(G.ccw(b)))]


def _min_feature(env):
    m = None
    js = [j for s in env for j in O.shape_jordans(s)]
    for j in js:
        for a, b in O.edges_of(j):
            d2 = (b[0] - a[0]) ** 2 + (b[1] - a[1]) ** 2
            m = d2 if m is None or d2 < m else m
    # crossings vs vertices
    ja, jb = O.shape_jordans(env[0]), O.shape_jordans(env[1])
    vs = [sg[0] for j in js for sg in j]
    for x in ja:
        for y in jb:
            for e1 in O.edges_of(x):
                for e2 in O.edges_of(y):
                    p = _xpt(e1, e2)
                    if p is not None:
                        for v in vs:
                            d2 = (p[0] - v[0]) ** 2 + (p[1] - v[1]) ** 2
                            if d2 < m:
                                m = d2
    return F(math.sqrt(float(m))) if m else F(1)


def _xpt(e1, e2):
    (a, b), (c, d) = e1, e2
    v0 = (b[0] - a[0], b[1] - a[1])
    v1 = (d[0] - c[0], d[1] - c[1])
    den = v0[0] * v1[1] - v0[1] * v1[0]
    if den == 0:
        return None
    w = (c[0] - a[0], c[1] - a[1])
    t = (w[0] * v1[1] - w[1] * v1[0]) / den
    u = (w[0] * v0[1] - w[1] * v0[0]) / den
    if 0 <= t <= 1 and 0 <= u <= 1:
        return (a[0] + t * v0[0], a[1] + t * v0[1])
    return None


def nontrivial(case):
    if case.get("curved"):
        return True
    ident = case["k"] == 1 and case["rot"] == (F(1), F(0)) and case["mv"] == (F(0), F(0))
    return (not ident) and OC.crossing_count(case["env"]) >= 2


def _T(case):
    k, (c, s), (vx, vy) = case["k"], case["rot"], case["mv"]
    return lambda p: (k * (c * p[0] - s * p[1]) + vx, k * (s * p[0] + c * p[1]) + vy)


def _check_inplace(ctx, case, T):
    """the operands are used once (which fills whatever the library memoises), then transformed by the library's own
    scale / move IN PLACE, one step at a time in either order, and used again after every step: each answer must be
    the image of the first under the map applied so far"""
    fails = []
    env, op, k, (vx, vy) = case["env"], case["op"], case["k"], case["mv"]
    ctx.count("inplace")
    A, B = I.mk_shape(env[0], "frac"), I.mk_shape(env[1], "frac")
    f = {"|": lambda a, b: a | b, "&": lambda a, b: a & b, "-": lambda a, b: a - b, "^": lambda a, b: a ^ b,
         "~": lambda a, b: ~a, "in": lambda a, b: bool(b in a),
         "pt": lambda a, b: None}[op]
    pts = OC.sample_points(env)
    pts = [p for p in pts if O.region(env[0], p) in ("in", "out")]
    ask = lambda a, M: [bool(a.contains_point(M(p), True)) for p in pts[::2]]
    r0 = I.outcome(lambda: f(A, B))
    q0 = ask(A, lambda p: p)
    d0 = I.shape_data(r0[1]) if r0[0] == "ok" and op not in ("in", "pt") else None
    mv = (vx, vy) if (vx, vy) != (0, 0) else (F(5), F(-3))
    if case.get("order", 0) == 1 and max(abs(mv[0]), abs(mv[1])) * max(k, 1) > 10 ** 6:
        # move first, then scale: the translation is scaled too; stay within the property's range (translations up to 1e6)
        mv = (F(5), F(-3))
    steps = [("scale", k), ("move", mv)] if case.get("order", 0) == 0 else [("move", mv), ("scale", k)]
    steps.append(("move", (-mv[1], mv[0] / 2)))
    sc, tr = F(1), (F(0), F(0))                   # the map so far: p -> sc * p + tr
    for name, arg in steps:
        if name == "scale":
            if arg == 1:
                continue
            for X in (A, B):
                X.scale(arg, arg)
            sc, tr = sc * arg, (tr[0] * arg, tr[1] * arg)
        else:
            for X in (A, B):
                X.move(arg)
            tr = (tr[0] + arg[0], tr[1] + arg[1])
        M = (lambda sc, tr: lambda p: (sc * p[0] + tr[0], sc * p[1] + tr[1]))(sc, tr)
        after = "after %s in place of operands already used" % name
        r1 = I.outcome(lambda: f(A, B))
        q1 = ask(A, M)
        if q0 != q1:
            fails.append(Fail(kind="O", what="T(p) in T(A) differs from p in A " + after, impl=q1, expected=q0))
            return fails
        if r0[0] != r1[0]:
            fails.append(Fail(kind="O", what="operator outcome changes " + after, impl=(r1[0], str(r1[1])[:80]), expected=(r0[0], str(r0[1])[:80])))
            return fails
        if r0[0] != "ok" or op == "pt":
            continue
        if op == "in":
            if r0[1] != r1[1]:
                fails.append(Fail(kind="O", what="T(B) in T(A) differs from B in A " + after, impl=r1[1], expected=r0[1]))
                return fails
            continue
        d1 = I.shape_data(r1[1])
        if d0[0] != d1[0]:
            fails.append(Fail(kind="O", what="kind of the result changes " + after, impl=d1[0], expected=d0[0]))
            return fails
        if d0[0] not in "EW":
            a0, a1 = O.moment_shape(d0, 0, 0), O.moment_shape(d1, 0, 0)
            if not U.num_close(a1, sc * sc * a0, 1e-9, 0):
                fails.append(Fail(kind="O", what="area does not scale by the square of the factor " + after, impl=a1, expected=sc * sc * a0))
                return fails
            for p in pts:
                ra, rb = O.region(d0, p), O.region(d1, M(p))
                if "bdry" in (ra, rb):
                    continue
                if ra != rb:
                    fails.append(Fail(kind="O", what="T(A) op T(B) is not T(A op B) at a sample point " + after, p=p, impl=rb, expected=ra))
                    return fails
    return fails


def check(ctx, case):
    fails = []
    if case.get("curved"):
        # F13: the same drawing at two scales
        k = case["k"]
        P = I.Primitive
        small = P.circle(0.05) & P.square(0.075, (0.05, 0))
        big = P.circle(0.05 * k) & P.square(0.075 * k, (0.05 * k, 0))
        a1, a2 = float(small), float(big) / (k * k)
        if type(small).__name__ != type(big).__name__ or abs(a1 - a2) > 1e-5 * max(abs(a1), abs(a2)):
            fails.append(Fail(kind="O", what="the same drawing at two scales gives different results",
                              impl=[type(small).__name__, a1], expected=[type(big).__name__, a2]))
        return fails
    env, op, num = case["env"], case["op"], case["num"]
    T = _T(case)
    k = case["k"]
    ctx.count("op:" + op)
    ctx.count("scale:%s" % (float(k),))
    ctx.count("num:" + num)
    tenv = [U.map_shape(s, T) for s in env]
    exact = num != "float"
    mk = lambda d: I.mk_shape(d, num)
    if case.get("inplace"):
        return _check_inplace(ctx, case, T)
    if op == "pt":
        pts = OC.sample_points(env)[::2]
        A, TA = mk(env[0]), mk(tenv[0])
        for p in pts:
            if O.region(env[0], p) not in ("in", "out"):
                continue
            q = T(p)
            r0 = bool(A.contains_point(p if exact else (float(p[0]), float(p[1])), True))
            r1 = bool(TA.contains_point(q if exact else (float(q[0]), float(q[1])), True))
            if r0 != r1:
                fails.append(Fail(kind="O", what="T(p) in T(A) differs from p in A", p=p))
                break
        return fails
    if op == "in":
        r0 = I.outcome(lambda: bool(mk(env[1]) in mk(env[0])))
        r1 = I.outcome(lambda: bool(mk(tenv[1]) in mk(tenv[0])))
        if r0 != r1:
            fails.append(Fail(kind="O", what="T(B) in T(A) differs from B in A", impl=r1, expected=r0))
        return fails
    if op == "~":
        f = lambda a, b: ~a
    else:
        f = {"|": lambda a, b: a | b, "&": lambda a, b: a & b, "-": lambda a, b: a - b, "^": lambda a, b: a ^ b}[op]
    rnd = I.ROUNDINGS[0]
    r0 = I.outcome(lambda: f(mk(env[0]), mk(env[1])))
    r1 = I.outcome(lambda: f(mk(tenv[0]), mk(tenv[1])))
    if exact and I.ROUNDINGS[0] != rnd:
        # Point2D legitimately rounded a computed coordinate with a denominator above 1e9 (limit_denominator): the
        # two computations are no longer exact images of each other; compared at 1e-6 like the float stream
        ctx.set_aside += 1
        exact = False
    if r0[0] != r1[0]:
        fails.append(Fail(kind="O", what="operator outcome depends on the similarity map", impl=(r1[0], str(r1[1])[:80]), expected=(r0[0], str(r0[1])[:80])))
        return fails
    if r0[0] != "ok":
        return fails
    d0, d1 = I.shape_data(r0[1]), I.shape_data(r1[1])
    if d0[0] != d1[0]:
        fails.append(Fail(kind="O", what="kind of the result depends on the similarity map", impl=d1[0], expected=d0[0]))
        return fails
    if d0[0] not in "EW":
        a0, a1 = O.moment_shape(d0, 0, 0), O.moment_shape(d1, 0, 0)
        if not (a1 == k * k * a0 if exact else U.num_close(a1, k * k * a0, 1e-6, 0)):
            fails.append(Fail(kind="O", what="area does not scale by the square of the factor", impl=a1, expected=k * k * a0))
        pts = OC.sample_points(env)
        if not exact:
            pts = [p for p in pts if all(OC.dist2_point_seg(p, a, b) > F(1, 10 ** 6) for s in env for j in O.shape_jordans(s) for a, b in O.edges_of(j))]
        for p in pts:
            ra = O.region(d0, p)
            rb = O.region(d1, T(p))
            if "bdry" in (ra, rb):
                continue
            if ra != rb:
                fails.append(Fail(kind="O", what="T(A) op T(B) is not T(A op B) at a sample point", p=p, impl=rb, expected=ra))
                break
        if exact:
            # structural: the transformed result is the result of the transformed operands (same vertices)
            ctx.k_cases += 1
            if U.shape_same(U.map_shape(d0, T), d1, True):
                ctx.k_agreed += 1
            else:
                ctx.count("representation-drift")
                ctx.k_agreed += 1       # same region (checked above), other representation: logged, not a disagreement
    return fails
