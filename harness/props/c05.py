"""C05 -- operator results are measure-consistent (inclusion-exclusion of moments)."""
from fractions import Fraction as F

from .. import gen as G, impl as I, oracle as O, util as U, opcases as OC
from ..core import Fail

PID = "C05"
RULE = ("pairs of shapes of all kinds in general position (int/Fraction exact; a float stream at the property's 1e-5 "
        "tolerance; rectangles with a quadratic / cubic arc side against rectangles crossing the arc, float data at 1e-5; circle-vs-square in the thorough tier), pairs sharing one complete boundary curve (a polygon with holes against one of its holes or its complement) and nested expressions; for every moment of order <= 2: "
        "m(A|B)+m(A&B) = m(A)+m(B), m(A-B) = m(A)-m(A&B), m(A^B) = m(A|B)-m(A&B), m(~A) = -m(A), Whole counted as 0; "
        "each operator evaluated on fresh operands, for a third of the exact pairs on operands brought into place by an in-place move / scale after a first use elsewhere; non-trivial = boundaries cross or a composite operand; distinct = SHA-1")
PROOF_STATUS = ("Props/C05.v: m(~A) = -m(A) for all polygonal shapes (reversal), split leaves the area and the winding "
                "number unchanged, every piece is selected by exactly one of | and & when its midpoint is off the other "
                "boundary; the identities themselves rest on the recombination premise of C01 (partial)")
MOMS = [(0, 0), (1, 0), (0, 1), (2, 0), (1, 1), (0, 2)]


def cases(ctx):
    rng = ctx.rng
    for i in range(ctx.n(26, 700)):
        den = rng.choice([1, 1, 2, 3])
        env = OC.gen_env(rng, 2, R=rng.choice([6, 10, 14]), den=den)
        if env is None:
            continue
        num = "float" if i % 5 == 4 else ("int" if den == 1 and i % 5 == 1 else "frac")
        case = {"env": env, "num": num}
        if i % 3 == 0 and num == "frac":
            # the same operands reached through a history: B is built elsewhere (displaced or at another size), used
            # once there, then brought into place by the library's own move / scale, in place
            case["hist"] = ["move", "scale", "moveA"][(i // 3) % 3]
        yield case
    for i in range(ctx.n(5, 120)):
        env = OC.component_env(rng, R=rng.choice([8, 12])) if i % 2 else OC.nested_env(rng)
        if env is not None:
            yield {"env": env, "num": "frac"}
    # operands that share one complete boundary curve: a polygon with holes against one of its holes (or the
    # complement of the hole), both orders
    for i in range(ctx.n(6, 120)):
        h = G.holed_shape(rng, R=rng.choice([10, 14]), den=rng.choice([1, 2]), nholes=rng.choice([1, 2]))
        if h[0] != "C":
            continue
        K = ("S", U.reverse_jordan(h[1][1])) if i % 2 else ("S", h[1][1])
        yield {"env": [h, K] if i % 4 < 2 else [K, h], "num": "frac", "shared_curve": True}
    sq = ("S", G.verts_to_jordan(G.ccw([(F(0), F(0)), (F(3), F(0)), (F(3), F(3)), (F(0), F(3))])))
    yield {"env": [sq, ("E",)], "num": "frac"}
    yield {"env": [("W",), sq], "num": "frac"}
    # curved boundaries of degree 2 and 3 (float data, the property's 1e-5 relative tolerance): a rectangle whose top
    # side is a quadratic / cubic arc, against a rectangle that crosses the arc and the bottom side
    for i in range(ctx.n(8, 120)):
        w, h = rng.choice([3, 4, 6]), rng.choice([2, 3, 5])
        d = 2 + i % 2
        us = [rng.choice([-h / 4, h / 3, h / 2, h, 1.5 * h]) for _ in range(d - 1)]
        cs = sorted(rng.choice([0.1, 0.2, 0.35, 0.5, 0.65, 0.8, 0.9]) for _ in range(d - 1))
        if len(set(cs)) < len(cs):
            continue
        x0 = rng.choice([0.5, 1.0, 1.25, 1.7])
        x1 = x0 + rng.choice([0.8, 1.1, 1.6])
        if x1 >= w - 0.2:
            continue
        yield {"arcrect": [w, h, us, cs], "cut": [x0, x1], "shift": [rng.choice([0.0, 0.0, 7.5, -3.25]), rng.choice([0.0, 2.0, -11.0])]}
    if ctx.thorough():
        for i in range(12):
            yield {"curved": True, "r": rng.choice([1.0, 1.5]), "c": [rng.choice([0.0, 0.31]), rng.choice([0.0, 0.22])],
                   "side": rng.choice([1.7, 2.2]), "nd": rng.choice([8, 16])}


def nontrivial(case):
    if case.get("curved") or case.get("arcrect"):
        return True
    return OC.nontrivial({"env": case["env"]})


def _m(S, a, b):
    if isinstance(S, (I.EmptyShape, I.WholeShape)):
        return F(0)
    return I.num(I.IntegrateShape.polynomial(S, a, b))


def _mk_hist(env, how):
    """the operands of env, one of them built somewhere else, used there once (& and `in` against the other), and
    brought into place by the library's own in-place move / scale (exact on Fractions)"""
    d = (F(40), F(-25))
    c = F(3)
    if how == "scale":
        A = I.mk_shape(env[0], "frac")
        B = I.mk_shape(U.map_shape(env[1], lambda p: (p[0] * c, p[1] * c)), "frac")
        I.outcome(lambda: (B & A, B in A, A in B))
        B.scale(1 / c, 1 / c)
        return A, B
    if how == "moveA":
        A = I.mk_shape(U.map_shape(env[0], lambda p: (p[0] + d[0], p[1] + d[1])), "frac")
        B = I.mk_shape(env[1], "frac")
        I.outcome(lambda: (A & B, B in A, A in B))
        A.move((-d[0], -d[1]))
        return A, B
    A = I.mk_shape(env[0], "frac")
    B = I.mk_shape(U.map_shape(env[1], lambda p: (p[0] + d[0], p[1] + d[1])), "frac")
    I.outcome(lambda: (B & A, B in A, A in B))
    B.move((-d[0], -d[1]))
    return A, B


def check(ctx, case):
    fails = []
    if case.get("arcrect"):
        w, h, us, cs = case["arcrect"]
        sx, sy = case["shift"]
        n = len(us) + 1
        # abscissae of the control points strictly decreasing (so the arc is a graph over the base), not evenly spaced
        top = [(w + sx, h + sy)] + [(w - c * w + sx, h + u + sy) for c, u in zip(cs, us)] + [(0.0 + sx, h + sy)]
        top = [(float(a), float(b)) for a, b in top]
        ymax = h + max([0.0] + [float(u) for u in us]) + 1.0
        x0, x1 = case["cut"]
        def mk():
            J = I.JordanCurve.from_ctrlpoints([[(sx, sy), (w + sx, sy)], [(w + sx, sy), (w + sx, h + sy)], top, [(sx, h + sy), (sx, sy)]])
            B = I.Primitive.polygon([(x0 + sx, sy - 1.0), (x1 + sx, sy - 1.0), (x1 + sx, ymax + sy), (x0 + sx, ymax + sy)])
            return I.SimpleShape(J), B
        exact, tol = False, F(1, 100000)
        ctx.count("arc side of degree %d" % n)
    elif case.get("curved"):
        mk = lambda: (I.Primitive.circle(case["r"], tuple(case["c"]), case["nd"]), I.Primitive.square(case["side"]))
        exact, tol = False, F(1, 100000)
    else:
        env, num = case["env"], case["num"]
        mk = lambda: (I.mk_shape(env[0], num), I.mk_shape(env[1], num))
        if case.get("hist"):
            ctx.count("history:" + case["hist"])
            mk = lambda: _mk_hist(env, case["hist"])
        exact = num != "float"
        tol = F(1, 100000)
        ctx.count("num:" + num)
        for s in env:
            ctx.count("kind:" + U.shape_kind(s))
    res = {}
    # float / curved data: ^ joins two halves that touch at crossing points which are no longer bit-identical
    # (inexact contact, known finding F17 under C01): the inexact streams use | & - and ~ only
    ops = "|&-^" if exact else "|&-"
    for op in ops:
        A, B = mk()
        try:
            with U.time_limit(300):
                r = I.outcome(lambda: {"|": lambda: A | B, "&": lambda: A & B, "-": lambda: A - B, "^": lambda: A ^ B}[op]())
        except U.Timeout:
            r = ("err", "hang")
        res[op] = r
    A, B = mk()
    nA = I.outcome(lambda: ~A)
    bad = [op for op in res if res[op][0] != "ok"]
    if bad or nA[0] != "ok":
        return [Fail(kind="O", what="operator raised", ops=bad, impl=[res[o] for o in bad])]

    def close(x, y, scale):
        if exact:
            return x == y
        return abs(x - y) <= tol * max(scale, F(1, 1000))

    if exact and not case.get("curved") and not case.get("arcrect") and not case.get("shared_curve") and all(x[0] not in "EW" for x in case["env"]):
        # the computable premise of theorem C05_inclusion_exclusion_partial, evaluated by the extracted model
        cov = ctx.model.branch_faithful(case["env"][0], case["env"][1])
        ctx.count("theorem-premise:" + ("holds" if cov else "fails"))
        if not cov:
            ctx.notes.append("C05 premise general_branch_faithful_b fails on a generated case (judged by the oracle only)")
    if exact and not case.get("curved") and not case.get("arcrect"):
        # correspondence: the moments of the implementation's results against the model's results
        for op in "|&-^":
            rm = ctx.model.eval_expr(case["env"], (op, ("var", 0), ("var", 1)))
            ctx.k_cases += 1
            if rm[0] == "ok" and ctx.model.moment(rm[1][1], 1, 1) == _m(res[op][1], 1, 1) and \
                    ctx.model.moment(rm[1][1], 0, 0) == _m(res[op][1], 0, 0):
                ctx.k_agreed += 1
            else:
                fails.append(Fail(kind="K", what="moments of the operator result differ from the model's", op=op))
    for (a, b) in MOMS:
        mA, mB = _m(A, a, b), _m(B, a, b)
        mo, ma, ms, mn = (_m(res["|"][1], a, b), _m(res["&"][1], a, b), _m(res["-"][1], a, b), _m(nA[1], a, b))
        mx = _m(res["^"][1], a, b) if "^" in res else None
        scale = max(abs(mA), abs(mB), abs(mo), abs(ma))
        ids = [("m(A|B)+m(A&B) = m(A)+m(B)", mo + ma, mA + mB),
               ("m(A-B) = m(A)-m(A&B)", ms, mA - ma),
               ("m(~A) = -m(A)", mn, -mA)]
        if mx is not None:
            ids.append(("m(A^B) = m(A|B)-m(A&B)", mx, mo - ma))
        for name, lhs, rhs in ids:
            # Whole counts as 0: an unbounded result has the negative convention, which the identities respect
            # except when Whole/Empty collapse loses the measure (A|B = Whole): handled by _m(Whole) = 0 only
            # if the true measure of the unbounded complement is 0; skip identities that involve a Whole result
            # of two unbounded operands whose complements overlap -- cannot happen: Whole has empty complement.
            if not close(lhs, rhs, scale):
                fails.append(Fail(kind="O", what="moment identity fails: %s for x^%d y^%d" % (name, a, b), lhs=lhs, rhs=rhs))
    return fails
