"""C18 -- segment calculus: evaluation, derivative, split, box, point-on-curve, winding of a segment."""
import math
from fractions import Fraction as F

from .. import gen as G, impl as I, oracle as O, util as U
from ..core import Fail

PID = "C18"
RULE = ("random Bezier segments of degree 1..6 (rational coordinates k/4 in [-10,10], plus a float stream), "
        "parameters t rational in [0,1] (and a few outside), split node lists, query points on / near / far from "
        "the segment; a case is non-trivial when the segment is not degenerate (not all control points equal) "
        "and, for on-curve queries, the point lies in the segment's bounding box; evaluation and derivative again after the control points were scaled in place; graphs of functions of degree 2 and 3 (x linear in t, arbitrarily bent): every C(k/32) must be `in` the segment; distinct = SHA-1 of the case")
PROOF_STATUS = ("Props/C18.v: eval = Bernstein sum, derivative = formal derivative, split retraces, box encloses "
                "(degrees 1..6, all control points, all t), comb = binomial, on_seg sound for any projection")


def _seg(rng, d, floaty=False):
    s = G.random_seg(rng, d)
    return s


def cases(ctx):
    rng = ctx.rng
    n = ctx.n(60, 1500)
    for i in range(n):
        d = 1 + i % 6
        s = G.random_seg(rng, d)
        numtype = "float" if i % 5 == 4 else "frac"
        t = G.random_Q(rng) if i % 7 else G.random_Q(rng, -1, 2)
        yield {"k": "eval", "seg": s, "t": t, "num": numtype}
        yield {"k": "der", "seg": s, "times": 1 + i % 3, "t": G.random_Q(rng), "num": numtype}
        nn = rng.randint(1, 3)
        nodes = sorted({G.random_Q(rng, 0, 1, den=rng.choice([8, 16, 100])) for _ in range(nn)} - {F(0), F(1)})
        if nodes:
            yield {"k": "split", "seg": s, "nodes": nodes, "num": numtype}
        yield {"k": "box", "seg": s, "num": numtype}
        # point-on-curve
        t2 = G.random_Q(rng, 0, 1, den=rng.choice([2, 3, 4, 8, 10]))
        # curved segments with Fraction data make the Newton projection blow up (minutes per call,
        # exact rationals with exploding denominators): curved on-curve queries use float data
        ont = "frac" if d == 1 else "float"
        yield {"k": "on", "seg": s, "mode": "at", "t": t2, "num": ont}
        yield {"k": "on", "seg": s, "mode": "far", "p": (F(rng.randint(-40, 40), 3), F(rng.randint(-40, 40), 3)), "num": ont}
        if d == 1:
            off = rng.choice([F(1, 2000000), F(1, 500000)])     # 0.5e-6 / 2e-6 off the line
            yield {"k": "on", "seg": s, "mode": "probe", "t": t2, "off": off}
        yield {"k": "wind", "seg": s, "p": (F(rng.randint(-60, 60), 4), F(rng.randint(-60, 60), 4)), "num": numtype}
    # completeness of `p in segment` on regular, loop-free curved segments: graphs of functions (x linear in t), also
    # strongly bent ones; every point C(k/32) must be found
    for i in range(ctx.n(44, 400)):
        d = 2 + (i % 4 == 3)
        x0, w = F(rng.randint(-8, 8)), F(rng.randint(1, 6))
        yield {"k": "graph", "seg": [(x0 + w * j / d, F(rng.randint(-12, 12))) for j in range(d + 1)]}


def nontrivial(case):
    if case["k"] == "graph":
        return True
    s = case["seg"]
    if len(set(s)) < 2:
        return False
    if case["k"] == "on" and case["mode"] == "far":
        p = case["p"]
        return O.hull_contains(s, p)
    return True


def _mk(case):
    nt = case.get("num", "frac")
    return I.PlanarCurve([(I.cast(p[0], nt), I.cast(p[1], nt)) for p in case["seg"]]), nt == "frac"


def _normal(p, s):
    """unit-free normal offset helper for degree 1: returns the direction perpendicular to s"""
    (ax, ay), (bx, by) = s
    return (-(by - ay), bx - ax)


def check(ctx, case):
    m = ctx.model
    s = case["seg"]
    fails = []
    seg, exact = _mk(case)
    k = case["k"]
    ctx.count("kind:" + k)
    ctx.count("degree:%d" % (len(s) - 1))
    ctx.count("num:" + case.get("num", "frac"))
    if k == "eval":
        t = case["t"]
        tt = t if exact else float(t)
        ri = I.outcome(lambda: I.pt(seg(tt)))
        pm = m.eval(s, t)
        ctx.k_cases += 1
        if ri[0] == "ok" and U.pt_same(ri[1], pm, exact):
            ctx.k_agreed += 1
        else:
            fails.append(Fail(kind="K", what="segment(t) differs from model eval", impl=ri, model=pm))
        po = O.bez(s, t)                      # de Casteljau, independent
        pb = m.bernstein(s, t)
        if ri[0] != "ok" or not U.pt_same(ri[1], po, exact) or pb != po:
            fails.append(Fail(kind="O", what="segment(t) is not the Bernstein sum", impl=ri, expected=po))
    elif k == "der":
        times, t = case["times"], case["t"]
        ri = I.outcome(lambda: [I.pt(p) for p in seg.derivate(times).ctrlpoints])
        dm = m.derivate(s, times)
        ctx.k_cases += 1
        if ri[0] == "ok" and U.seg_same(ri[1], dm, exact):
            ctx.k_agreed += 1
        else:
            fails.append(Fail(kind="K", what="derivate(k) control points differ from model", impl=ri, model=dm))
        # oracle: k-th formal derivative of the Bernstein polynomial, evaluated at t
        X = O.bern_poly([p[0] for p in s])
        Y = O.bern_poly([p[1] for p in s])
        for _ in range(times):
            X, Y = O.p_der(X), O.p_der(Y)
        ex = (sum((c * t ** i for i, c in enumerate(X)), F(0)), sum((c * t ** i for i, c in enumerate(Y)), F(0)))
        tt = t if exact else float(t)
        rv = I.outcome(lambda: I.pt(seg.derivate(times)(tt)))
        if rv[0] != "ok" or not U.pt_same(rv[1], ex, exact):
            fails.append(Fail(kind="O", what="derivate(k)(t) is not the k-th derivative", impl=rv, expected=ex))
        # the same segment object after its control points were changed IN PLACE (what JordanCurve.scale / rotate do
        # to the shared Point2D objects): evaluation and derivative follow the control points it has now
        if exact and not fails:
            kx, ky = F(2), F(3)
            r = I.outcome(lambda: [p.scale(kx, ky) for p in seg.ctrlpoints])
            if r[0] == "ok":
                s2 = [(p[0] * kx, p[1] * ky) for p in s]
                ex2 = (ex[0] * kx, ex[1] * ky)
                rv2 = I.outcome(lambda: I.pt(seg.derivate(times)(tt)))
                ev2 = I.outcome(lambda: I.pt(seg(tt)))
                if rv2 != ("ok", ex2):
                    fails.append(Fail(kind="O", what="after an in-place scaling of the control points derivate(k)(t) is not the derivative of the segment as it is now",
                                      impl=rv2, expected=ex2))
                if ev2 != ("ok", O.bez(s2, t)):
                    fails.append(Fail(kind="O", what="after an in-place scaling of the control points segment(t) is not the Bernstein sum", impl=ev2))
    elif k == "split":
        nodes = case["nodes"]
        nn = nodes if exact else [float(x) for x in nodes]
        ri, rounded = I.outcome_r(lambda: [[I.pt(p) for p in pc.ctrlpoints] for pc in seg.split(tuple(nn))])
        if rounded:            # denominators above 1e9 were capped by Point2D: outside the exact fragment
            ctx.set_aside += 1
            exact = False
        pm = m.split_many(s, nodes)
        ctx.k_cases += 1
        ok = ri[0] == "ok" and len(ri[1]) == len(pm) and all(U.seg_same(a, b, exact) for a, b in zip(ri[1], pm))
        if ok:
            ctx.k_agreed += 1
        else:
            fails.append(Fail(kind="K", what="split pieces differ from model", impl=ri, model=pm))
        if ri[0] == "ok":
            ts = [F(0)] + list(nodes) + [F(1)]
            good = len(ri[1]) == len(ts) - 1
            if good:
                for j, pc in enumerate(ri[1]):
                    for x in (F(0), F(1, 3), F(1)):
                        if not U.pt_same(O.bez(pc, x), O.bez(s, ts[j] + x * (ts[j + 1] - ts[j])), exact):
                            good = False
            if not good:
                fails.append(Fail(kind="O", what="split piece does not retrace the segment", impl=ri))
        else:
            fails.append(Fail(kind="O", what="split raised", impl=ri))
    elif k == "box":
        ri = I.outcome(lambda: (lambda b: (I.num(b.lowpt[0]), I.num(b.lowpt[1]), I.num(b.toppt[0]), I.num(b.toppt[1])))(seg.box()))
        bm = m.seg_box(s)
        ctx.k_cases += 1
        if ri[0] == "ok" and all(U.num_same(a, b, exact) for a, b in zip(ri[1], bm)):
            ctx.k_agreed += 1
        else:
            fails.append(Fail(kind="K", what="box differs from model", impl=ri, model=bm))
        if ri[0] == "ok":
            b = ri[1]
            for i in range(9):
                p = O.bez(s, F(i, 8))
                if not (b[0] <= p[0] <= b[2] and b[1] <= p[1] <= b[3]):
                    fails.append(Fail(kind="O", what="box does not contain segment(t)", t=F(i, 8), impl=ri))
                    break
    elif k == "on":
        mode = case["mode"]
        d = len(s) - 1
        if mode == "at":
            p = O.bez(s, case["t"])
            expect = True
        elif mode == "far":
            p = case["p"]
            # expected False when farther than 1e-3 from the control box (hence from the curve)
            xs = [q[0] for q in s]
            ys = [q[1] for q in s]
            dx = max(min(xs) - p[0], 0, p[0] - max(xs))
            dy = max(min(ys) - p[1], 0, p[1] - max(ys))
            expect = False if (dx > F(1, 1000) or dy > F(1, 1000)) else None
        else:
            base = O.bez(s, case["t"])
            nx, ny = _normal(base, s)
            ln = math.sqrt(float(nx * nx + ny * ny))
            if ln == 0:
                return fails
            sc = F(case["off"]) / F(ln)
            p = (base[0] + sc * nx, base[1] + sc * ny)
            seglen2 = (s[1][0] - s[0][0]) ** 2 + (s[1][1] - s[0][1]) ** 2
            expect = (case["off"] < F(1, 1000000)) if seglen2 > F(1, 100) else None
        pq = (p[0], p[1]) if exact else (float(p[0]), float(p[1]))
        with U.time_limit(120):
            ri = I.outcome(lambda: bool(pq in seg))
        regular = len(set(s)) == len(s)
        if d == 1 or mode == "far":
            pm = m.on_seg(s, p)
            ctx.k_cases += 1
            if ri == ("ok", pm):
                ctx.k_agreed += 1
            else:
                fails.append(Fail(kind="K", what="`p in segment` differs from model on_seg", p=p, impl=ri, model=pm))
        if expect is not None and (d == 1 or mode == "far") and ri != ("ok", expect):
            fails.append(Fail(kind="O", what="`p in segment` wrong (mode %s)" % mode, p=p, impl=ri, expected=expect))
        if d > 1 and mode == "at" and regular and ri[0] != "ok":
            fails.append(Fail(kind="O", what="`segment(t) in segment` raised", p=p, impl=ri))
        if d > 1 and mode == "at" and ri == ("ok", False):
            ctx.count("on:curved-at-false")
    elif k == "graph":
        d = len(s) - 1
        ctx.count("graph:degree %d" % d)
        segf = I.PlanarCurve([(float(p[0]), float(p[1])) for p in s])
        missed = []
        for kk in range(1, 32):
            p = O.bez(s, F(kk, 32))
            r = I.outcome(lambda: bool((float(p[0]), float(p[1])) in segf))
            if r != ("ok", True):
                missed.append((F(kk, 32), r))
        if missed:
            fails.append(Fail(kind="O", what="`C(t) in segment` is not True for %d of 31 points of a regular loop-free segment of degree %d" % (len(missed), d),
                              t=missed[0][0], impl=missed[0][1]))
    elif k == "wind":
        p = case["p"]
        # stay away from the segment: angle is discontinuous on it
        if O.hull_contains(s, p):
            ctx.count("wind:skipped-inside-hull")
            return fails
        ri = I.outcome(lambda: float(I.IntegratePlanar.winding_number(seg, center=(float(p[0]), float(p[1])))))
        # subtended angle: fine chord polygon (homotopic to the curve in the plane minus p since p is outside the hull)
        N = 64
        tot = 0.0
        pts = [O.bez(s, F(i, N)) for i in range(N + 1)]
        for a, b in zip(pts, pts[1:]):
            ax, ay, bx, by = float(a[0] - p[0]), float(a[1] - p[1]), float(b[0] - p[0]), float(b[1] - p[1])
            tot += math.atan2(ax * by - ay * bx, ax * bx + ay * by)
        tot /= math.tau
        if ri[0] != "ok" or abs(ri[1] - tot) > 1e-7:
            fails.append(Fail(kind="O", what="winding contribution is not the subtended angle", impl=ri, expected=tot))
        wm = m.seg_wn(s, p)          # integer crossing count of the same chords: consistency of the idealisation
        ctx.count("wind:model-crossings-%d" % wm)
    return fails
