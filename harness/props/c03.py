"""C03 -- `B in A` for curves and shapes means subset."""
from fractions import Fraction as F

from .. import gen as G, impl as I, oracle as O, util as U, opcases as OC
from ..core import Fail

PID = "C03"
RULE = ("per seed a pool of shapes built to contain every pattern (nested, hole-in-hole, unbounded in unbounded, "
        "component-wise, crossing, disjoint, L-shapes with squares in the notch, Empty, Whole); all ordered pairs in "
        "general position (or nested without contact), unbounded Connected and Disjoint containers with bounded contents, curved contents whose control polygon leaves the container while the curve stays inside (parabola cap in a rectangle, few-arc circle in a tight square; closed-form truth), plus simple shapes whose boundaries touch without crossing (shared vertex, vertex on an edge, shared part of an edge; bounded/unbounded): `B in A`, A.contains_shape(B), the corollaries A in A, "
        "B in A => A|B == A and A&B == B; contains_jordan with both flags for curves against shapes; pairs of strictly convex polygons (nested, crossing, disjoint, containing: the range of C03_convex_in_iff, hypotheses evaluated by the extracted model); exact subset "
        "oracle by slab sampling; every pair with answer True and a third of the others asked again after a history (one operand built displaced / scaled / point-reflected, asked there, brought into place by in-place move / scale); non-trivial = bounding boxes overlap and neither is Empty/Whole; distinct = SHA-1")
PROOF_STATUS = ("Props/C03.v: Empty/Whole rows, composition rules for Connected/Disjoint containers and contents; curve-in-shape "
                "(the heart of `B in A`) is SOUND and COMPLETE for polygons: in general position `J in A` holds iff every point of "
                "J is inside or on A (C03_curve_in_shape_iff), lifted to all container kinds; REGION level for strictly convex polygons: `B in A` decides subset of the regions (C03_convex_in_iff, decidable hypotheses); the area/orientation case analysis of "
                "simple-in-simple for non-convex polygons is the oracle's (partial); F10, F11, F22 repaired")


def _scale(s, k, v):
    return U.map_shape(s, lambda p: (p[0] * k + v[0], p[1] * k + v[1]))


def _pool(rng):
    pool = [("E",), ("W",)]
    base = [G.any_shape(rng, R=12, kinds=("S", "S", "C", "D", "U")) for _ in range(5)]
    pool += base
    for s in base[:3]:
        # a shrunken copy nested inside / a complement
        js = O.shape_jordans(s)
        pts = [p for p in O.slab_samples(js) if O.region(s, p) == "in"]
        if pts and s[0] != "U":
            c = pts[rng.randrange(len(pts))]
            small = ("S", G.verts_to_jordan(G.ccw([(c[0] + F(dx, 64), c[1] + F(dy, 64)) for dx, dy in ((1, 0), (0, 1), (-1, 0), (0, -1))])))
            pool.append(small)
            pool.append(("S", U.reverse_jordan(small[1])))
    # unbounded Connected containers (the plane minus two or more polygons) with bounded contents clear of the holes
    for _ in range(2):
        u = G.unbounded_connected(rng, R=rng.choice([8, 12]))
        if u[0] != "C":
            continue
        pool.append(u)
        pts = [p for p in O.slab_samples(O.shape_jordans(u)) if O.region(u, p) == "in"]
        for c in rng.sample(pts, min(2, len(pts))):
            d = F(1, 32)
            pool.append(("S", G.verts_to_jordan(G.ccw([(c[0] + d, c[1]), (c[0], c[1] + d), (c[0] - d, c[1]), (c[0], c[1] - d)]))))
    # Disjoint containers with an UNBOUNDED component (the complement of a ring: its hole plus the outside), bounded
    # contents in either component
    for _ in range(2):
        h = G.holed_shape(rng, R=rng.choice([8, 12]), nholes=1)
        if h[0] != "C":
            continue
        comp = ("D", [("S", U.reverse_jordan(h[1][1])), ("S", U.reverse_jordan(h[1][0]))])
        pool.append(comp)
        pts = [p for p in O.slab_samples(O.shape_jordans(comp)) if O.region(comp, p) == "in"]
        far = [p for p in pts if O.region(("S", U.reverse_jordan(h[1][0])), p) == "in"]
        for c in rng.sample(far, min(2, len(far))) + rng.sample(pts, min(1, len(pts))):
            d = F(1, 32)
            pool.append(("S", G.verts_to_jordan(G.ccw([(c[0] + d, c[1]), (c[0], c[1] + d), (c[0] - d, c[1]), (c[0], c[1] - d)]))))
    L = G.verts_to_jordan([(F(0), F(0)), (F(4), F(0)), (F(4), F(4)), (F(2), F(4)), (F(2), F(2)), (F(0), F(2))])
    sq = G.verts_to_jordan(G.ccw([(F(1, 2), F(5, 2)), (F(3, 2), F(5, 2)), (F(3, 2), F(7, 2)), (F(1, 2), F(7, 2))]))
    off = (F(rng.randint(-20, 20)), F(rng.randint(-20, 20)))
    tr = lambda j: U.map_jordan(j, lambda p: (p[0] + off[0], p[1] + off[1]))
    pool += [("S", tr(L)), ("S", U.reverse_jordan(tr(L))), ("S", tr(sq)), ("S", U.reverse_jordan(tr(sq)))]
    T = G.verts_to_jordan([(F(0), F(0)), (F(4), F(4)), (F(2), F(4)), (F(0), F(2))])       # vertices on the L-shape
    pool.append(("S", tr(T)))
    return pool


def _compatible(a, b):
    """general position, or no boundary contact at all"""
    ja, jb = O.shape_jordans(a), O.shape_jordans(b)
    return G.general_position(ja, jb)


def _touching(rng):
    """a polygon and a small polygon that touches it without crossing: apex on a vertex ("v"), apex inside an edge ("e"),
    or a side lying on part of an edge ("ee"); inside or outside; -> the two boundaries (both counter-clockwise)"""
    P = G.ccw(G.star_polygon(rng, n=rng.randint(3, 6), R=8, center=(0, 0), rmin=0.5))
    n = len(P)
    i = rng.randrange(n)
    mode = rng.choice(["v", "e", "ee"])
    a, b = P[i], P[(i + 1) % n]
    if mode == "v":
        apex = a
    else:
        t = F(rng.randint(1, 3), 4)
        apex = (a[0] + t * (b[0] - a[0]), a[1] + t * (b[1] - a[1]))
    cx, cy = sum(p[0] for p in P) / n, sum(p[1] for p in P) / n
    sgn = rng.choice([1, -1])
    d = ((apex[0] - cx) * sgn, (apex[1] - cy) * sgn)
    k = F(rng.randint(1, 4), 4)
    if mode == "ee":
        q0 = (a[0] + F(1, 4) * (b[0] - a[0]), a[1] + F(1, 4) * (b[1] - a[1]))
        q1 = (a[0] + F(3, 4) * (b[0] - a[0]), a[1] + F(3, 4) * (b[1] - a[1]))
        Q = [q0, q1, (q1[0] + k * d[0] / 2, q1[1] + k * d[1] / 2), (q0[0] + k * d[0] / 2, q0[1] + k * d[1] / 2)]
    else:
        base = (apex[0] + k * d[0], apex[1] + k * d[1])
        perp = (-d[1] * k / 3, d[0] * k / 3)
        Q = [apex, (base[0] + perp[0], base[1] + perp[1]), (base[0] - perp[0], base[1] - perp[1])]
    if len(set(Q)) < len(Q) or not G.is_simple_polygon(Q):
        return None
    return mode, G.verts_to_jordan(P), G.verts_to_jordan(G.ccw(Q))


def cases(ctx):
    rng = ctx.rng
    # curved contents whose CONTROL POLYGON sticks out of the container although the curve does not: the cap under a
    # parabola (top at h, control point at 2h) in a rectangle whose top edge lies between h and 2h; a circle with few
    # arcs in a tight square
    for i in range(ctx.n(6, 60)):
        a, h = rng.choice([1, 2, 3]), rng.choice([1, 2, 4])
        top = [F(11, 10) * h, F(3, 2) * h, F(19, 10) * h, F(9, 10) * h, F(5, 2) * h][i % 5]
        yield {"dome": [a, h], "rect": [F(-a) - F(1, 2), F(-1, 3), F(a) + F(1, 4), top], "truth": top >= h}
    for i in range(ctx.n(4, 40)):
        nd = rng.choice([5, 6, 7, 9, 10])
        yield {"disk": nd, "half": rng.choice([1.02, 1.04, 1.5]), "truth": True}
    # simple shapes whose boundaries touch without crossing (shared vertex, vertex on an edge, shared part of an
    # edge), bounded and unbounded in all four combinations, both directions
    for _ in range(ctx.n(12, 150)):
        t = _touching(rng)
        if t is None:
            continue
        mode, ja, jb = t
        oa, ob = rng.random() < 0.5, rng.random() < 0.6
        a = ("S", U.reverse_jordan(ja) if oa else ja)
        b = ("S", U.reverse_jordan(jb) if ob else jb)
        yield {"a": a, "b": b, "same": False, "touch": mode}
        yield {"a": b, "b": a, "same": False, "touch": mode}
    # pairs of strictly convex polygons: nested (B a shrunken / displaced copy or a small polygon inside A), crossing,
    # disjoint -- the range of C03_convex_in_iff, whose hypotheses the extracted model evaluates
    from .c01 import _convex_polygon
    for i in range(ctx.n(16, 300)):
        va = _convex_polygon(rng, rng.choice([3, 4, 5, 6]))
        if va is None:
            continue
        cx, cy = sum(p[0] for p in va) / len(va), sum(p[1] for p in va) / len(va)
        mode = i % 4
        if mode == 0:        # shrunken copy about the centroid: inside
            k = F(rng.choice([1, 2, 3]), 4)
            vb = [(cx + k * (p[0] - cx), cy + k * (p[1] - cy)) for p in va]
        elif mode == 1:      # small triangle / quadrilateral around the centroid: inside unless A is thin
            vb = _convex_polygon(rng, rng.choice([3, 4]))
            if vb is None:
                continue
            bx, by = sum(p[0] for p in vb) / len(vb), sum(p[1] for p in vb) / len(vb)
            vb = [(cx + (p[0] - bx) / 8, cy + (p[1] - by) / 8) for p in vb]
        elif mode == 2:      # another convex polygon somewhere near: crossing / disjoint / containing
            vb = _convex_polygon(rng, rng.choice([3, 4, 5]))
            if vb is None:
                continue
        else:                # the container seen from inside: A in B for an enlarged copy
            k = F(rng.choice([3, 5]), 2)
            vb = [(cx + k * (p[0] - cx), cy + k * (p[1] - cy)) for p in va]
            va, vb = vb, va
        a, b = ("S", G.verts_to_jordan(va)), ("S", G.verts_to_jordan(vb))
        if _compatible(a, b):
            yield {"a": a, "b": b, "same": False, "convex": [va, vb]}
    npools = ctx.n(2, 40)
    for _ in range(npools):
        pool = _pool(rng)
        pairs = [(a, b) for a in pool for b in pool]
        rng.shuffle(pairs)
        forced = [(a, b) for a in pool for b in pool if a[0] == "C" and b[0] == "S" and O.moment_shape(a, 0, 0) < 0 < O.moment_shape(b, 0, 0)]
        forced2 = [(a, b) for a in pool for b in pool if a[0] == "D" and b[0] == "S" and O.moment_shape(b, 0, 0) > 0
                   and any(O.moment_shape(c, 0, 0) < 0 for c in a[1])]
        rng.shuffle(forced2)
        # bounded contents nested in bounded containers (the small diamonds placed inside pool members)
        forced3 = [(a, b) for a in pool for b in pool if a is not b and a[0] not in "EW" and b[0] == "S"
                   and 0 < O.moment_shape(b, 0, 0) < F(1, 100) and O.moment_shape(a, 0, 0) > 0
                   and O.region(a, b[1][0][0]) == "in"]
        for n, (a, b) in enumerate(forced[:8] + forced2[:10] + forced3[:6] + pairs[: ctx.n(60, 400)]):
            if a is b or _compatible(a, b):
                case = {"a": a, "b": b, "same": a is b}
                if a is not b and a[0] not in "EW" and b[0] not in "EW":
                    # the same question after a history: one operand is built elsewhere (displaced, at another size,
                    # or point-reflected), asked there, then brought into place by the library's in-place move / scale
                    case["hist"] = ["moveB", "moveA", "scaleB", "reflectA", "scaleA", "reflectB"][n % 6]
                yield case
        for s in pool[2:8]:
            for t in pool[2:10]:
                for j in O.shape_jordans(t)[:1]:
                    if G.general_position(O.shape_jordans(s), [j]) and rng.random() < ctx.n(0.35, 1.0):
                        yield {"a": s, "jordan": j}


def nontrivial(case):
    if "dome" in case or "disk" in case:
        return True
    a = case["a"]
    if a[0] in "EW":
        return False
    if "jordan" in case:
        return True
    b = case["b"]
    if b[0] in "EW":
        return False
    return True


def _subset(a, b, pts):
    """exact: region b inside the closure of region a, judged on one point of every cell"""
    for p in pts:
        if O.region(b, p) == "in" and O.region(a, p) == "out":
            return False
    return True


def _curved_content(ctx, case):
    fails = []
    if "dome" in case:
        a, h = float(case["dome"][0]), float(case["dome"][1])
        x0, y0, x1, y1 = [float(v) for v in case["rect"]]
        A = I.Primitive.polygon([(x0, y0), (x1, y0), (x1, y1), (x0, y1)])
        B = I.SimpleShape(I.JordanCurve.from_ctrlpoints([[(-a, 0.0), (a, 0.0)], [(a, 0.0), (0.0, 2 * h), (-a, 0.0)]]))
        ctx.count("dome")
    else:
        import math
        nd, half = case["disk"], case["half"]
        B = I.Primitive.circle(1.0, (0.0, 0.0), nd)
        # the arcs stay within (cos(a/2) + sec(a/2))/2 of the centre (C16), the control points reach sec(a/2)
        ang = 2 * math.pi / nd
        reach = (math.cos(ang / 2) + 1 / math.cos(ang / 2)) / 2
        half = max(half, reach + 0.01)
        if half >= 1 / math.cos(ang / 2):
            ctx.count("disk:control polygon inside too")
        A = I.Primitive.square(2 * half)
        ctx.count("disk")
    truth = bool(case["truth"])
    J = B.jordans[0]
    for name, f in (("B in A", lambda: bool(B in A)), ("A.contains_shape(B)", lambda: bool(A.contains_shape(B))),
                    ("J in A", lambda: bool(J in A)), ("A.contains_jordan(J, True)", lambda: bool(A.contains_jordan(J, True))),
                    ("A.contains_jordan(J, False)", lambda: bool(A.contains_jordan(J, False)))):
        r = I.outcome(f)
        if r != ("ok", truth):
            fails.append(Fail(kind="O", what="%s is not the subset relation for a curved content (closed form)" % name, impl=r, expected=truth))
    return fails


def _hist(a, b, how):
    """A and B as library objects, one of them built somewhere else, asked there (`in` both ways, box), and brought
    into place by the library's own in-place move / scale; exact on Fractions"""
    d, c = (F(37), F(-29)), F(4)
    maps = {"move": (lambda p: (p[0] + d[0], p[1] + d[1]), lambda X: X.move((-d[0], -d[1]))),
            "scale": (lambda p: (p[0] * c, p[1] * c), lambda X: X.scale(1 / c, 1 / c)),
            "reflect": (lambda p: (-p[0], -p[1]), lambda X: X.scale(-1, -1))}
    fwd, back = maps[how[:-1]]
    if how.endswith("A"):
        A, B = I.mk_shape(U.map_shape(a, fwd)), I.mk_shape(b)
        X = A
    else:
        A, B = I.mk_shape(a), I.mk_shape(U.map_shape(b, fwd))
        X = B
    I.outcome(lambda: (bool(B in A), bool(A in B), X.box() if hasattr(X, "box") else None))
    back(X)
    return A, B


def check(ctx, case):
    fails = []
    if "dome" in case or "disk" in case:
        return _curved_content(ctx, case)
    a = case["a"]
    A = I.mk_shape(a)
    ctx.count("A:" + U.shape_kind(a))
    if "jordan" in case:
        j = case["jordan"]
        J = I.mk_jordan(j)
        pts_on = [O.bez(s, F(k, 4)) for s in j for k in range(4)]
        for flag in (True, False):
            if a[0] in "EW":
                continue
            ri = I.outcome(lambda: bool(A.contains_jordan(J, flag)))
            rm = ctx.model.contains_jordan(a, j, flag)
            ctx.k_cases += 1
            if ri == rm:
                ctx.k_agreed += 1
            else:
                fails.append(Fail(kind="K", what="contains_jordan differs from model", flag=flag, impl=ri, model=rm))
            # oracle: every point of J in A.  Polygons in general position: enough to look at the pieces of J between
            # crossings with A's boundary -- sample each edge of J densely at the crossing parameters' midpoints
            truth = True
            for s in j:
                us = {F(0), F(1)}
                for ja in O.shape_jordans(a):
                    for e in ja:
                        for (_, _, u, v) in _cross(s, e):
                            us.add(u)
                us = sorted(us)
                samples = us + [(u0 + u1) / 2 for u0, u1 in zip(us, us[1:])]
                for u in samples:
                    r = O.region(a, O.bez(s, u))
                    if r == "out" or (r == "bdry" and not flag):
                        truth = False
            if ri != ("ok", truth):
                fails.append(Fail(kind="O", what="contains_jordan is not 'every point of J lies in A'", flag=flag, impl=ri, expected=truth))
        return fails
    b = case["b"]
    ctx.count("B:" + U.shape_kind(b))
    if case.get("touch"):
        ctx.count("touching:" + case["touch"])
    B = I.mk_shape(b)
    ri = I.outcome(lambda: bool(B in A))
    rm = ctx.model.contains_shape(a, b)
    ctx.k_cases += 1
    if ri == rm:
        ctx.k_agreed += 1
    else:
        fails.append(Fail(kind="K", what="`B in A` differs from model", impl=ri, model=rm))
    if a[0] not in "EW" and b[0] not in "EW":
        r2 = I.outcome(lambda: bool(A.contains_shape(B)))
        if r2 != ri:
            fails.append(Fail(kind="O", what="`B in A` differs from A.contains_shape(B)", impl=ri, expected=r2))
    # oracle
    if b[0] == "E":
        truth = True
    elif a[0] == "W":
        truth = True
    elif b[0] == "W":
        truth = False
    elif a[0] == "E":
        truth = False
    else:
        pts = O.slab_samples(O.shape_jordans(a) + O.shape_jordans(b))
        truth = _subset(a, b, pts)
    if ri != ("ok", truth):
        fails.append(Fail(kind="O", what="`B in A` is not the subset relation", impl=ri, expected=truth))
    elif truth and a[0] not in "EW" and b[0] not in "EW" and not case.get("same") and not case.get("touch"):
        # consequences: A|B == A and A&B == B (as regions)
        A2, B2 = I.mk_shape(a), I.mk_shape(b)
        ru = I.outcome(lambda: I.shape_data(A2 | B2))
        rn = I.outcome(lambda: I.shape_data(I.mk_shape(a) & I.mk_shape(b)))
        if ru[0] != "ok" or not U.shape_same(ru[1], I.shape_data(I.mk_shape(a))):
            fails.append(Fail(kind="O", what="B in A but A|B is not A", impl=ru))
        if rn[0] != "ok" or not U.shape_same(rn[1], I.shape_data(I.mk_shape(b))):
            fails.append(Fail(kind="O", what="B in A but A&B is not B", impl=rn))
    if case.get("convex") and ri[0] == "ok":
        va, vb = case["convex"]
        ca, cb, tt, ar, ans, ja, jb = ctx.model.convex_in(va, vb)
        same = lambda j, k: [list(map(tuple, sg)) for sg in j] == [list(map(tuple, sg)) for sg in k]
        if not (ca and cb) or not same(ja, a[1]) or not same(jb, b[1]):
            fails.append(Fail(kind="K", what="convex_ccw_b rejects a strictly convex counter-clockwise polygon, or poly_of is not the curve given to the implementation", model=[ca, cb]))
        elif tt and (ar or len(vb) == 3):
            ctx.count("theorem C03_convex_in_iff: every hypothesis evaluated true (answer %s)" % truth)
            if ans != ("ok", truth):
                fails.append(Fail(kind="K", what="C03_convex_in_iff applies (hypotheses evaluated true) but the model's answer is not the subset relation", model=ans, expected=truth))
        else:
            ctx.count("theorem C03_convex_in_iff: %s" % ("tolerance hypothesis fails" if not tt else "area short-cut branch (B larger than A, B not a triangle): answer judged by the oracle only"))
    if case.get("hist") and (truth or case["hist"] in ("moveB", "reflectA")):
        # the same question on objects with a history (every pair where the answer is True, a third of the others)
        ctx.count("history:" + case["hist"])
        Ah, Bh = _hist(a, b, case["hist"])
        rh = I.outcome(lambda: bool(Bh in Ah))
        if rh != ("ok", truth):
            fails.append(Fail(kind="O", what="`B in A` is not the subset relation after a history (%s: built elsewhere, asked there, "
                              "brought into place by an in-place move / scale)" % case["hist"], impl=rh, expected=truth))
    if case.get("same") and ri != ("ok", True):
        fails.append(Fail(kind="O", what="A in A is not True", impl=ri))
    return fails


def _cross(s, e):
    """crossings of straight segments s and e: list of (0,0,u,v)"""
    (p0, p1), (q0, q1) = (s[0], s[-1]), (e[0], e[-1])
    d1 = (p1[0] - p0[0], p1[1] - p0[1])
    d2 = (q1[0] - q0[0], q1[1] - q0[1])
    den = d1[0] * d2[1] - d1[1] * d2[0]
    if den == 0:
        return []
    w = (q0[0] - p0[0], q0[1] - p0[1])
    u = (w[0] * d2[1] - w[1] * d2[0]) / den
    v = (w[0] * d1[1] - w[1] * d1[0]) / den
    if 0 <= u <= 1 and 0 <= v <= 1:
        return [(0, 0, u, v)]
    return []
