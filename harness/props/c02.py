"""C02 -- point membership is geometric truth, with the documented boundary rule."""
from fractions import Fraction as F

from .. import gen as G, impl as I, oracle as O, util as U
from ..core import Fail

PID = "C02"
RULE = ("shapes of every kind (simple bounded/unbounded, with holes, several components, Empty, Whole; int / "
        "Fraction / float coordinates) x query points: one point in every cell of the edge arrangement (slab "
        "samples), every vertex, edge midpoints and other rational points on edges, probes 0.5e-6 and 2e-6 off "
        "an edge, far points; curved stream: circles and quadratic arcs with points on a polar grid outside "
        "the chord/arc band; a third of the exact questions asked again of an object with a history (built elsewhere, asked, moved / scaled / point-reflected in place, asked after each step); non-trivial = the point lies in the bounding box of the shape; distinct = SHA-1")
PROOF_STATUS = ("Props/C02.v: contains_point = region spec for all polygonal shapes of all kinds at every point "
                "where the tolerance test answers the exact question (tol_exact), with jordan orientation from "
                "the shoelace theorem; cr/wn characterisations (triangle, antisymmetry, split, reversal, "
                "translation, scaling)")


HISTS = [[("move", (F(-31), F(17)))], [("scale", F(-1))], [("scale", F(1, 3)), ("move", (F(5), F(-2)))],
         [("move", (F(2), F(9))), ("scale", F(-2))], [("scale", F(-1)), ("scale", F(-1))], [("scale", F(5, 2))]]


def _with_history(s, p, steps):
    """the library object for shape data s reached through the in-place steps, each preceded by a query"""
    inv = []
    for name, arg in reversed(steps):
        inv.append((lambda d: (lambda q: (q[0] - d[0], q[1] - d[1])))(arg) if name == "move" else (lambda k: (lambda q: (q[0] / k, q[1] / k)))(arg))
    back = lambda q: q
    datas = [(s, p)]
    for f in inv:                                   # data before each step, last step first
        datas.append((U.map_shape(datas[-1][0], f), f(datas[-1][1])))
    datas.reverse()
    S = I.mk_shape(datas[0][0], "frac")
    for (name, arg), (_, q) in zip(steps, datas):
        I.outcome(lambda: (S.contains_point(q, True), q in S))
        if name == "move":
            S.move(arg)
        else:
            S.scale(arg, arg)
    return S


def _pts_for(rng, s):
    js = O.shape_jordans(s)
    pts = []
    if not js:
        return [("far", (F(rng.randint(-50, 50)), F(rng.randint(-50, 50)))) for _ in range(3)]
    for p in O.slab_samples(js):
        pts.append(("cell", p))
    for j in js:
        for sg in j:
            pts.append(("vertex", sg[0]))
            a, b = sg[0], sg[-1]
            pts.append(("edge", ((a[0] + b[0]) / 2, (a[1] + b[1]) / 2)))
            t = F(rng.randint(1, 6), 7)
            pts.append(("edge", (a[0] + t * (b[0] - a[0]), a[1] + t * (b[1] - a[1]))))
    xs = [p[0] for j in js for sg in j for p in sg]
    ys = [p[1] for j in js for sg in j for p in sg]
    pts.append(("far", (max(xs) + 1000, max(ys) + 777)))
    pts.append(("far", (min(xs) - 10 ** 6, F(1, 3))))
    rng.shuffle(pts)
    return pts


def cases(ctx):
    rng = ctx.rng
    nshapes = ctx.n(14, 300)
    per = ctx.n(22, 60)
    nh = 0
    yield {"shape": ("E",), "p": (F(1), F(2)), "what": "far", "num": "frac"}
    yield {"shape": ("W",), "p": (F(1), F(2)), "what": "far", "num": "frac"}
    for i in range(nshapes):
        den = rng.choice([1, 1, 2, 4])
        s = G.any_shape(rng, R=rng.choice([8, 20]), den=den, kinds=("S", "S", "S", "C", "D", "U", "UC"))
        num = ["frac", "int", "float"][i % 3] if den == 1 else ["frac", "float"][i % 2]
        pts = _pts_for(rng, s)
        for what, p in pts[:per]:
            yield {"shape": s, "p": p, "what": what, "num": num}
        if num == "frac":
            # the same questions about an object with a history: built elsewhere (displaced / at another size / point-
            # reflected), asked there, brought into place by the library's own in-place move / scale, asked after each step
            nh += 1
            hist = HISTS[nh % len(HISTS)]
            for what, p in pts[:per][:: 3]:
                yield {"shape": s, "p": p, "what": what, "num": num, "hist": hist}
        # tolerance probes on one edge (long edges only)
        js = O.shape_jordans(s)
        sg = js[0][rng.randrange(len(js[0]))]
        a, b = sg[0], sg[-1]
        l2 = (b[0] - a[0]) ** 2 + (b[1] - a[1]) ** 2
        if l2 >= 1:
            import math
            ln = F(math.sqrt(float(l2)))
            mid = ((a[0] + b[0]) / 2, (a[1] + b[1]) / 2)
            nx, ny = -(b[1] - a[1]) / ln, (b[0] - a[0]) / ln
            for off in (F(1, 2000000), F(-1, 2000000), F(1, 500000), F(-1, 500000)):
                yield {"shape": s, "p": (mid[0] + off * nx, mid[1] + off * ny), "what": "probe", "off": off, "num": "frac"}
    # curved stream: circle, points outside the chord/arc band
    import math
    for k in range(ctx.n(3, 30)):
        nd = rng.choice([4, 8, 16])
        r = rng.choice([1, 2.5, 0.3])
        c = (rng.choice([0, 3.5, -7.25]), rng.choice([0, 1.5]))
        for q in range(ctx.n(8, 30)):
            ang = rng.uniform(0, math.tau)
            rel = rng.choice([0.2, 0.6, 0.9, 1.2, 1.5, 3.0])
            yield {"circle": [r, list(c), nd], "ang": ang, "rel": rel, "what": "circle"}
        # just outside the arcs (between an arc and its control polygon) and just inside the chords, in the
        # directions of the arc middles and of the arc ends
        for q in range(ctx.n(8, 30)):
            k = rng.randrange(nd)
            ang = math.tau * (k + rng.choice([0.5, 0.5, 0.25, 0.0, 0.8])) / nd
            yield {"circle": [r, list(c), nd], "ang": ang, "near": rng.choice(["hi*1.004", "hi*1.02", "lo*0.996", "lo*0.98"]), "rel": 1.0, "what": "circle"}


def nontrivial(case):
    if "circle" in case:
        return case["rel"] < 1.6
    js = O.shape_jordans(case["shape"])
    if not js:
        return False
    xs = [p[0] for j in js for sg in j for p in sg]
    ys = [p[1] for j in js for sg in j for p in sg]
    p = case["p"]
    return min(xs) <= p[0] <= max(xs) and min(ys) <= p[1] <= max(ys)


def check(ctx, case):
    fails = []
    if "circle" in case:
        import math
        r, c, nd = case["circle"]
        S = I.Primitive.circle(r, tuple(c), nd)
        # band: the quadratic arcs lie between radius r and r*sqrt(1+h^4/(4(1+h^2))) ; chords reach r*cos(alpha/2)
        h = math.tan(math.pi / nd)
        lo = r * math.cos(math.pi / nd) * (1 - 1e-9)
        hi = r * math.sqrt(1 + h ** 4 / (4 * (1 + h * h))) * (1 + 1e-9)
        d = case["rel"] * r
        if case.get("near"):
            which, fac = case["near"].split("*")
            d = (hi if which == "hi" else lo) * float(fac)
            ctx.count("circle:near " + case["near"])
        ctx.count("circle:ndiv=%d" % nd)
        if lo - 1e-3 * r <= d <= hi + 1e-3 * r and not case.get("band_probe"):
            ctx.count("circle:in-band-skipped")
            return fails
        p = (c[0] + d * math.cos(case["ang"]), c[1] + d * math.sin(case["ang"]))
        expect = d < lo if not case.get("band_probe") else d < r
        for b in (True, False):
            ri = I.outcome(lambda: bool(S.contains_point(p, b)))
            if ri != ("ok", expect):
                fails.append(Fail(kind="O", what="point vs circle wrong", p=p, boundary=b, impl=ri, expected=expect))
        return fails
    s, p, num = case["shape"], case["p"], case["num"]
    exact = num != "float"
    ctx.count("kind:" + U.shape_kind(s))
    ctx.count("num:" + num)
    ctx.count("point:" + case["what"])
    if not exact and case["what"] in ("edge", "probe", "vertex"):
        # float data: points constructed on an edge are only approximately on it; compare K only
        pass
    S = I.mk_shape(s, num)
    if case.get("hist") and s[0] not in "EW":
        ctx.count("history:" + "+".join(n if n == "move" or a > 0 else "reflect" for n, a in case["hist"]))
        S = _with_history(s, p, case["hist"])
        if not U.shape_same(I.shape_data(S), s, True):
            return [Fail(kind="O", what="in-place move / scale did not bring the shape to the expected coordinates")]
    pp = p if exact else (float(p[0]), float(p[1]))
    pex = p if exact else (F(pp[0]), F(pp[1]))
    sex = s if exact else I.shape_data(S)
    reg = O.region(sex, pex) if s[0] not in "EW" else ("out" if s[0] == "E" else "in")
    for b in (True, False):
        if s[0] in "EW":       # the singletons only have `in`
            ri = I.outcome(lambda: bool(pp in S))
        else:
            ri = I.outcome(lambda: bool(S.contains_point(pp, b)))
        pm = ctx.model.contains_point(sex, pex, b)
        ctx.k_cases += 1
        if ri == ("ok", pm):
            ctx.k_agreed += 1
        else:
            fails.append(Fail(kind="K", what="contains_point differs from model", boundary=b, impl=ri, model=pm))
        if case["what"] == "probe":
            expect = b if abs(case["off"]) < F(1, 1000000) else (reg == "in")
            # 0.5e-6 off: counted as on the boundary by the library's tolerance; 2e-6 off: geometric truth
            if abs(case["off"]) < F(1, 1000000):
                continue        # inside the tolerance zone the property leaves the answer to the tolerance
        elif reg == "in":
            expect = True
        elif reg == "out":
            expect = False
        elif reg == "bdry":
            expect = b
        else:
            continue
        if not exact and case["what"] in ("edge", "vertex") and reg != "bdry":
            continue            # float point meant to be on an edge but not exactly on it: tolerance zone
        if ri != ("ok", expect):
            fails.append(Fail(kind="O", what="contains_point is not geometric truth (region %s)" % reg,
                              boundary=b, impl=ri, expected=expect))
    if b is False and s[0] not in "EW":
        ri = I.outcome(lambda: bool(pp in S))
        rb = I.outcome(lambda: bool(S.contains_point(pp, True)))
        if ri != rb:
            fails.append(Fail(kind="O", what="`p in S` differs from contains_point(p, True)", impl=ri, expected=rb))
    return fails
