"""C07 -- == is region equality and an equivalence relation."""
from fractions import Fraction as F

from .. import gen as G, impl as I, oracle as O, util as U
from ..core import Fail

PID = "C07"
RULE = ("pools of shapes and closed curves: for each base shape its representations (rotated start vertex, 1-2 inserted "
        "collinear vertices (also at different places with equal segment counts), int/Fraction/float re-encodings, permuted holes/components, split-and-cleaned, copies) and "
        "near misses (one vertex moved by 1e-3, same area elsewhere, holes / components of areas (p,q) vs (p-1,q+1), reversed orientation, other kind); X == Y, Y == X, "
        "X != Y on all pairs of a pool, transitivity on triples; the same objects compared again after move / scale of one of them; mixed-degree curves (circle-vs-polygon results) must "
        "return a bool; oracle = exact region equality (slab samples + orientation); non-trivial = both operands are "
        "neither Empty nor Whole; distinct = SHA-1")
PROOF_STATUS = ("Props/C07.v: kinds, totality (returns a bool) on well-formed polygons of all kinds, never loops, reflexive "
                "on cleaned polygons, start-vertex independence; SOUND: a == b implies equal winding numbers, area, boundary and "
                "region when the 1e-9 tolerance cannot confuse control points; symmetric for long pairwise different edges, "
                "refuted on a repeated edge; completeness / transitivity / composite shapes: oracle (partial); F7, F8, F20 repaired")


def _variants(rng, s):
    """[(label, data, numtype, same_region: bool)]"""
    out = [("base", s, "frac", True)]
    def map_curves(f):
        return U.map_comp(s, lambda p: p) if False else None
    def rot(j):
        k = rng.randrange(1, len(j))
        return j[k:] + j[:k]
    def ins(j):
        k = rng.randrange(len(j))
        a, b = j[k][0], j[k][-1]
        t = F(rng.randint(1, 3), 4)
        m = (a[0] + t * (b[0] - a[0]), a[1] + t * (b[1] - a[1]))
        return j[:k] + [[a, m], [m, b]] + j[k + 1:]
    def on_curves(f):
        if s[0] == "S":
            return ("S", f(s[1]))
        if s[0] == "C":
            return ("C", [f(j) for j in s[1]])
        return ("D", [("S", f(c[1])) if c[0] == "S" else ("C", [f(j) for j in c[1]]) for c in s[1]])
    out.append(("rotated", on_curves(rot), "frac", True))
    out.append(("inserted", on_curves(ins), "frac", True))
    out.append(("inserted2", on_curves(lambda j: ins(ins(j))), "frac", True))
    # same number of segments, redundant vertices at other places
    out.append(("inserted_b", on_curves(ins), "frac", True))
    out.append(("inserted2_b", on_curves(lambda j: ins(ins(j))), "frac", True))
    if all(x.denominator == 1 for j in O.shape_jordans(s) for sg in j for p in sg for x in p):
        out.append(("int", s, "int", True))
    out.append(("float", s, "float", True))
    if s[0] == "C":
        out.append(("perm", ("C", s[1][:1] + s[1][1:][::-1]), "frac", True))
    if s[0] == "D":
        out.append(("perm", ("D", s[1][::-1]), "frac", True))
    # near misses
    def moved(j):
        k = rng.randrange(len(j))
        p = j[k][0]
        q = (p[0] + F(1, 1000), p[1])
        jj = [list(sg) for sg in j]
        jj[k][0] = q
        jj[k - 1][-1] = q
        return [list(map(tuple, sg)) for sg in jj]
    first = [True]
    def moved_first(j):
        if first[0]:
            first[0] = False
            return moved(j)
        return j
    out.append(("moved", on_curves(moved_first), "frac", False))
    dx = F(rng.randint(30, 60))
    out.append(("elsewhere", U.map_shape(s, lambda p: (p[0] + dx, p[1])), "frac", False))
    if s[0] == "S":
        out.append(("reversed", ("S", U.reverse_jordan(s[1])), "frac", False))
    return out


def cases(ctx):
    rng = ctx.rng
    for i in range(ctx.n(8, 120)):
        s = G.any_shape(rng, R=rng.choice([8, 14]), den=1, kinds=("S", "S", "U", "C", "D"))
        vs = _variants(rng, s)
        idx = list(range(len(vs)))
        pairs = [(a, b) for a in idx for b in idx if a <= b]
        rng.shuffle(pairs)
        lab = {v[0]: k for k, v in enumerate(vs)}
        forced = [(lab["inserted"], lab["inserted_b"]), (lab["inserted_b"], lab["inserted"]), (lab["inserted2"], lab["inserted2_b"])]
        for a, b in forced + pairs[: ctx.n(14, 60)]:
            yield {"x": vs[a][1], "xn": vs[a][2], "xl": vs[a][0], "y": vs[b][1], "yn": vs[b][2], "yl": vs[b][0],
                   "same": vs[a][3] and vs[b][3] or a == b}
        # other kind
        t = G.any_shape(rng, R=8, kinds=("S", "C", "D"))
        yield {"x": s, "xn": "frac", "xl": "base", "y": t, "yn": "frac", "yl": "other", "same": False}
    # different regions with the same kind, the same number of curves and the same total area: holes (or components)
    # of areas (p, q) against (p - 1, q + 1)
    def rect(x, y, w, h, hole):
        vs = [(F(x), F(y)), (F(x + w), F(y)), (F(x + w), F(y + h)), (F(x), F(y + h))]
        return G.verts_to_jordan(G.cw(vs) if hole else G.ccw(vs))
    for i in range(ctx.n(6, 60)):
        pa, qa = rng.randint(2, 4), rng.randint(2, 5)
        outer = rect(0, 0, 20, 20, False)
        x1, x2 = rng.randint(1, 6), rng.randint(10, 14)
        y1, y2 = rng.randint(1, 12), rng.randint(1, 12)
        if i % 2 == 0:
            X = ("C", [outer, rect(x1, y1, 1, pa, True), rect(x2, y2, 1, qa, True)])
            Y = ("C", [outer, rect(x1, y1, 1, pa - 1, True), rect(x2, y2, 1, qa + 1, True)])
        else:
            X = ("D", [("S", rect(x1, y1, 1, pa, False)), ("S", rect(x2, y2, 1, qa, False))])
            Y = ("D", [("S", rect(x1, y1, 1, pa - 1, False)), ("S", rect(x2, y2, 1, qa + 1, False))])
        yield {"x": X, "xn": "frac", "xl": "areas(p,q)", "y": Y, "yn": "frac", "yl": "areas(p-1,q+1)", "same": False}
        yield {"x": Y, "xn": "frac", "xl": "areas(p-1,q+1)", "y": X, "yn": "frac", "yl": "areas(p,q)", "same": False}
    for sing in (("E",), ("W",)):
        yield {"x": sing, "xn": "frac", "xl": "sing", "y": sing, "yn": "frac", "yl": "sing", "same": True}
    yield {"x": ("E",), "xn": "frac", "xl": "sing", "y": ("W",), "yn": "frac", "yl": "sing", "same": False}
    for i in range(ctx.n(2, 12)):
        yield {"mixed": True, "r": rng.choice([1.0, 1.5]), "side": rng.choice([1.7, 2.2]), "op": "&|-"[i % 3]}
    for i in range(ctx.n(6, 80)):
        # curved boundary cut into pieces (long enough not to be degree-reduced) vs the uncut description
        yield {"curvedsplit": True, "nd": rng.choice([4, 8, 16]), "r": rng.choice([1.0, 2.5]),
               "idx": [rng.randrange(4) for _ in range(2)], "nodes": [rng.choice([0.25, 0.375, 0.7, 1 / 3, 0.6]) for _ in range(2)],
               "rot": rng.randrange(4)}
    for i in range(ctx.n(10, 120)):
        # SHAPES whose curved boundary is cut vs uncut, where the cut changes the control polygon's extent: the cap under
        # a parabola (its control point is the top of the control-point box) and circles of 5..7 arcs; dyadic data, so
        # that the cut is exact in floats
        if i % 3 == 2:
            yield {"capsplit": True, "disk": rng.choice([5, 6, 7]), "t": rng.choice([0.5, 0.25, 0.75]), "seg": rng.randrange(5),
                   "hole": i % 2 == 0}
        else:
            yield {"capsplit": True, "cap": [rng.choice([1, 2, 3]), rng.choice([1, 2, 3, 4])],
                   "t": rng.choice([0.5, 0.25, 0.75, 0.375, 0.625]), "hole": i % 2 == 0}


def nontrivial(case):
    if case.get("mixed") or case.get("curvedsplit") or case.get("capsplit"):
        return True
    return case["x"][0] not in "EW" and case["y"][0] not in "EW"


def _region_equal(x, y):
    if x[0] in "EW" or y[0] in "EW":
        return x[0] == y[0]
    pts = O.slab_samples(O.shape_jordans(x) + O.shape_jordans(y))
    for p in pts:
        rx, ry = O.region(x, p), O.region(y, p)
        if "bdry" in (rx, ry) or "undef" in (rx, ry):
            continue
        if rx != ry:
            return False
    return True


def check(ctx, case):
    fails = []
    if case.get("mixed"):
        C, S = I.Primitive.circle(case["r"]), I.Primitive.square(case["side"])
        op = case["op"]
        R = {"&": lambda: C & S, "|": lambda: C | S, "-": lambda: C - S}[op]()
        r = I.outcome(lambda: R == R)
        ctx.count("mixed-degree")
        if r[0] != "ok" or not isinstance(r[1], bool) or r[1] is not True:
            fails.append(Fail(kind="O", what="== on a mixed-degree shape does not return True for itself", impl=r))
        h = case["side"] / 2
        crossing = h < case["r"] * 0.999 and case["r"] * 1.001 < h * 2 ** 0.5      # the boundaries cross: R is neither C nor S
        r2 = I.outcome(lambda: R == S)
        if crossing and (r2[0] != "ok" or r2[1] is not False):
            fails.append(Fail(kind="O", what="== on mixed-degree vs polygon does not return False", impl=r2))
        if not crossing and r2[0] != "ok":
            fails.append(Fail(kind="O", what="== raised on the result of a nested circle/square operation", impl=r2))
        return fails
    if case.get("capsplit"):
        def mk(cut):
            if "cap" in case:
                a, h = float(case["cap"][0]), float(case["cap"][1])
                J = I.JordanCurve.from_ctrlpoints([[(-a, 0.0), (a, 0.0)], [(a, 0.0), (0.0, 2 * h), (-a, 0.0)]])
                if cut:
                    J.split([1], [case["t"]])
                big = 4 * max(a, h)
            else:
                J = I.Primitive.circle(1.0, (0, 0), case["disk"]).jordans[0]
                if cut:
                    J.split([case["seg"]], [case["t"]])
                big = 4.0
            if case["hole"]:
                return I.ConnectedShape([I.Primitive.square(2 * big), I.SimpleShape(~J)])
            return I.SimpleShape(J)
        S0, S1 = mk(False), mk(True)
        ctx.count("shape cut-vs-uncut:" + ("cap" if "cap" in case else "disk") + ("-hole" if case["hole"] else ""))
        if any(sg.degree != 2 for sg in S1.jordans[-1].segments if sg.degree > 1):
            return fails
        if float(S0) != float(S1) or float(I.SimpleShape(S0.jordans[-1])) != float(I.SimpleShape(S1.jordans[-1])):
            ctx.count("shape cut-vs-uncut: float areas differ (F9), not asked")
            return fails
        for name, f in (("cut == uncut", lambda: S1 == S0), ("uncut == cut", lambda: S0 == S1), ("not (cut != uncut)", lambda: not (S1 != S0))):
            r = I.outcome(f)
            if r != ("ok", True):
                fails.append(Fail(kind="O", what="shape == depends on how a curved boundary is cut into pieces (equal float areas): %s" % name, impl=r))
        return fails
    if case.get("curvedsplit"):
        S0 = I.Primitive.circle(case["r"], (0, 0), case["nd"])
        J0 = S0.jordans[0]
        segs = [[tuple(p) for p in s.ctrlpoints] for s in J0.segments]
        k = case["rot"]
        J1 = I.JordanCurve.from_ctrlpoints(segs[k:] + segs[:k])            # other start vertex
        pairs = sorted(set(zip(case["idx"], case["nodes"])))
        J1.split([p[0] for p in pairs], [p[1] for p in pairs])             # redundant vertices on curved pieces
        ctx.count("curved-split")
        if any(sg.degree != 2 for sg in J1.segments):
            return fails
        # (the shape-level == additionally wants bit-identical float areas: known finding F9, not asked here)
        for name, f in (("cut == uncut", lambda: J1 == J0), ("uncut == cut", lambda: J0 == J1)):
            r = I.outcome(f)
            if r != ("ok", True):
                fails.append(Fail(kind="O", what="== depends on how a curved boundary is cut into pieces: %s" % name, impl=r))
        r = I.outcome(lambda: J1 != J0)
        if r != ("ok", False):
            fails.append(Fail(kind="O", what="!= on two descriptions of the same curved curve", impl=r))
        return fails
    x, y = case["x"], case["y"]
    X, Y = I.mk_shape(x, case["xn"]), I.mk_shape(y, case["yn"])
    ctx.count("pair:%s-%s" % (case["xl"], case["yl"]))
    ctx.count("kind:" + U.shape_kind(x))
    rxy = I.outcome(lambda: X == Y)
    ryx = I.outcome(lambda: Y == X)
    rne = I.outcome(lambda: X != Y)
    for name, r in (("X == Y", rxy), ("Y == X", ryx)):
        if r[0] != "ok" or not isinstance(r[1], bool):
            fails.append(Fail(kind="O", what="%s does not return a bool" % name, impl=(r[0], repr(r[1])[:80])))
    if fails:
        return fails
    if rxy[1] != ryx[1]:
        fails.append(Fail(kind="O", what="== is not symmetric", impl=[rxy[1], ryx[1]]))
    if rne[0] == "ok" and rne[1] == rxy[1]:
        fails.append(Fail(kind="O", what="!= is not the negation of ==", impl=[rxy[1], rne[1]]))
    truth = _region_equal(x, y) if case["same"] is not True else True
    if rxy[1] != truth:
        fails.append(Fail(kind="O", what="== is not region equality (%s vs %s)" % (case["xl"], case["yl"]), impl=rxy[1], expected=truth))
    # correspondence (exact encodings only)
    if case["xn"] != "float" and case["yn"] != "float":
        rm = ctx.model.shape_eq(x, y)
        ctx.k_cases += 1
        if rm == ("ok", rxy[1]):
            ctx.k_agreed += 1
        else:
            fails.append(Fail(kind="K", what="== differs from model shape_eq", impl=rxy, model=rm))
    # the same OBJECTS compared again after an in-place transformation of one of them: == follows the
    # current geometry (exact data, translation / scaling by exact factors)
    if case["xn"] != "float" and case["yn"] != "float" and x[0] not in "EW" and y[0] not in "EW" and not fails:
        v = (F(7, 2), F(-3))
        hist = [("move", lambda S: S.move(v[0], v[1]), lambda p: (p[0] + v[0], p[1] + v[1])),
                ("scale", lambda S: S.scale(F(3, 2), F(3, 2)), lambda p: (p[0] * F(3, 2), p[1] * F(3, 2)))]
        name, act, f = hist[len(case["xl"]) % 2]
        act(X)
        x2 = U.map_shape(x, f)
        y2 = U.map_shape(y, f)
        Y2 = I.mk_shape(y2, case["yn"])
        r_new = I.outcome(lambda: (X == Y2, Y2 == X))
        r_old = I.outcome(lambda: X == Y)
        r_copy = I.outcome(lambda: X == I.mk_shape(x2, case["xn"]))
        ctx.count("compare-%s-compare" % name)
        if r_new != ("ok", (truth, truth)):
            fails.append(Fail(kind="O", what="after %s of an object that had been compared, == with the equally transformed partner is %r (before: %r)" % (name, r_new, truth)))
        if r_copy != ("ok", True):
            fails.append(Fail(kind="O", what="after %s of an object that had been compared, it is not == to a fresh object with its coordinates" % name, impl=r_copy))
        if truth and r_old != ("ok", False) and not _region_equal(x2, y):
            fails.append(Fail(kind="O", what="after %s the object is still == to its partner at the old place" % name, impl=r_old))
    return fails
