"""C06 -- results are canonical, well-formed shapes; empty/whole are the singletons."""
from fractions import Fraction as F

from .. import gen as G, impl as I, oracle as O, util as U, opcases as OC
from ..core import Fail

PID = "C06"
RULE_RING = ("; curved nested boundaries (a few-arc disk, whose control polygon may leave the container, inside a disk): kinds, number of curves and areas of big-small, ~(~big|small), ~big|small, ..., singleton laws on the ring and on its complement")
RULE = ("every operator result on general-position operands of all kinds and on nested expressions: each boundary a closed "
        "chain (end of one segment IS the start of the next, also by identity), no zero-length segment, no self-crossing, "
        "Simple = one boundary, Connected = >= 2 boundaries bounding one region with holes, Disjoint = >= 2 pairwise "
        "disjoint components, documented kind tables; the singleton laws S|~S, S&~S, S-S, S^S, S^~S on every generated "
        "shape of every kind (identity with the singletons), also on one object after its complement was taken, the shape moved and the complement scaled in place; float operands with a crossing within an ulp of an existing "
        "vertex (well-formedness incl. no segment shorter than 1e-9, region away from the boundaries); non-trivial = operands cross or are composite; distinct = SHA-1")
RULE = RULE + RULE_RING
PROOF_STATUS = ("Props/C06.v: results of all five operators are shape_wf with closed boundaries (all inputs), complement kind "
                "table, regrouping keeps the curves, singleton rows; no zero-length piece after any split, in any re-split operand, "
                "in any complement, and in | / & results whose pieces exceed the 1e-9 point tolerance (refuted below it, replayed); "
                "disjointness of components / no self-crossing / singleton laws for general S: oracle only (partial)")


def cases(ctx):
    rng = ctx.rng
    yield from OC.gen_cases(ctx, ctx.n(28, 800), ctx.n(8, 300), float_stream=False)
    for i in range(ctx.n(12, 300)):
        s = G.any_shape(rng, R=rng.choice([6, 12]), den=rng.choice([1, 2]), kinds=("S", "U", "C", "D"))
        yield {"laws": s, "num": "frac" if i % 3 else "int"}
    # CURVED nested boundaries: a disk of few arcs (its control polygon reaches beyond the curve) inside a disk; the ring,
    # its complement and the singleton laws on them -- kinds, curves, areas in closed form
    import math
    for i in range(ctx.n(2, 16)):
        nd = [6, 5, 7, 6, 8, 16][i % 6]
        ndb = [16, 8, 16, 32][i % 4]
        # the curve of the inner disk reaches (cos + sec)/2 * r, its control points sec * r (half-angle pi/nd); the
        # outer disk's chords come as close as cos(pi/ndb) to its centre, its control-point box reaches sec(pi/ndb)
        reach, ctrl = (math.cos(math.pi / nd) + 1 / math.cos(math.pi / nd)) / 2, 1 / math.cos(math.pi / nd)
        r = [0.95, 0.93, 0.9, 0.6][i % 4] * math.cos(math.pi / ndb) / reach
        yield {"ring": [ndb, nd, r], "rot": [0.0, 0.3, math.pi / 16][i % 3], "c": [[0.0, 2.5, -7.0][i % 3], [0.0, 1.5][i % 2]],
               "sticks_out": r * ctrl > 1 / math.cos(math.pi / ndb), "full": ctx.thorough()}
    # float operands with a crossing that coincides (within an ulp) with an existing vertex: the split parameter is
    # 1e-16 away from 0 or 1
    for i in range(ctx.n(24, 400)):
        t = G.vertex_crossing(rng)
        if t is None:
            continue
        env = [("S", t[0]), ("S", t[1])]
        yield {"env": env if i % 2 else env[::-1], "expr": ("|&-"[i % 3], ("var", 0), ("var", 1)), "num": "float"}


def nontrivial(case):
    if "laws" in case or "ring" in case:
        return True
    return OC.nontrivial(case)


def _wellformed(S, sd, exact=True):
    """list of defects of a result object S with data sd"""
    out = []
    if sd[0] in "EW":
        return out
    js = O.shape_jordans(sd)
    for J, j in zip(S.jordans, js):
        n = len(j)
        segs = J.segments
        for i in range(n):
            a, b = j[i], j[(i + 1) % n]
            if a[-1] != b[0]:
                out.append("open chain at junction %d" % i)
            if segs[i].ctrlpoints[-1] is not segs[(i + 1) % n].ctrlpoints[0]:
                out.append("junction %d not shared by identity" % i)
            if a[0] == a[-1] and len(set(a)) == 1:
                out.append("zero-length segment %d" % i)
            elif not exact and len(a) == 2 and abs(a[0][0] - a[1][0]) + abs(a[0][1] - a[1][1]) < F(1, 10 ** 9):
                out.append("segment %d shorter than 1e-9" % i)
        if O.is_polygon(j):
            vs = [sg[0] for sg in j]
            if len(set(vs)) != len(vs):
                out.append("repeated vertex (self-touching boundary)")
            else:
                es = G.poly_edges(vs)
                for i in range(n):
                    for k in range(i + 1, n):
                        if (k + 1) % n == i or (i + 1) % n == k:
                            continue
                        if G.segs_touch(*es[i], *es[k]):
                            out.append("boundary crosses/touches itself (edges %d, %d)" % (i, k))
    # structure by kind
    def comp_ok(c):
        if c[0] == "S":
            return
        cj = c[1]
        if len(cj) < 2:
            out.append("Connected with < 2 boundaries")
        # curves pairwise without contact
        for i in range(len(cj)):
            for k in range(i + 1, len(cj)):
                # touching at isolated points is inherent to ^ (the two differences meet at the crossing
                # points of the operands); proper crossings and overlapping edges are defects
                if G.count_crossings([cj[i]], [cj[k]]) or _overlap(cj[i], cj[k]):
                    out.append("boundaries of a Connected cross or overlap")
        # one region minus holes: at most one counter-clockwise boundary, and the region is not empty
        npos = sum(1 for j in cj if O.ccw(j))
        if npos > 1:
            out.append("Connected with %d positive boundaries" % npos)
        # every hole lies inside the outer boundary (if there is one) and no hole lies inside another hole
        pos = [j for j in cj if O.ccw(j)]
        neg = [j for j in cj if not O.ccw(j)]
        for hj in neg:
            v = hj[0][0]
            if pos and O.is_polygon(pos[0]) and O.region_simple(pos[0], v) == "out":
                out.append("a hole lies outside the outer boundary of its component")
            for other in neg:
                if other is not hj and O.is_polygon(other) and O.region_simple(other, v) == "out":
                    out.append("a hole lies inside another hole of the same component")
    if sd[0] == "D":
        if len(sd[1]) < 2:
            out.append("Disjoint with < 2 components")
        for c in sd[1]:
            comp_ok(c)
        # components pairwise disjoint: no sample point inside two components, boundaries do not cross
        pts = O.slab_samples(js)
        for p in pts:
            if sum(1 for c in sd[1] if O.region_comp(c, p) == "in") > 1:
                out.append("components of a Disjoint overlap")
                break
    else:
        comp_ok(sd)
    return out


def _overlap(j1, j2):
    """two straight edges share a piece of positive length"""
    for a, b in O.edges_of(j1):
        for c, d in O.edges_of(j2):
            if G.orient(a, b, c) == 0 and G.orient(a, b, d) == 0:
                k = 0 if a[0] != b[0] else 1
                lo, hi = max(min(a[k], b[k]), min(c[k], d[k])), min(max(a[k], b[k]), max(c[k], d[k]))
                if lo < hi:
                    return True
    return False


def _ring(ctx, case):
    fails = []
    ndb, nd, r = case["ring"]
    c = tuple(case["c"])
    def mk():
        big = I.Primitive.circle(1.0, c, ndb)
        small = I.Primitive.circle(r, (0.0, 0.0), nd)
        small.rotate(case["rot"])
        small.move(c[0], c[1])
        return big, small
    big, small = mk()
    ab, as_ = float(big), float(small)
    ctx.count("ring: control polygon of the inner disk %s the outer disk" % ("leaves" if case["sticks_out"] else "stays inside"))
    E_, W_ = I.EmptyShape(), I.WholeShape()
    def kind_area(f):
        r_ = I.outcome(f)
        if r_[0] != "ok":
            return r_
        R = r_[1]
        if R is E_ or R is W_:
            return ("ok", type(R).__name__, 0.0, 0)
        return ("ok", type(R).__name__, float(R), len(R.jordans))
    close = lambda x, y: abs(x - y) <= 1e-9 * max(1.0, abs(y))
    def expect(name, f, kind, area, ncurves):
        got = kind_area(f)
        if got[0] != "ok" or got[1] != kind or got[3] != ncurves or not close(got[2], area):
            fails.append(Fail(kind="O", what="curved nested boundaries: %s is not a %s with %d curve(s) and area %.6g" % (name, kind, ncurves, area), impl=str(got)))
    b, s = mk(); expect("big - small", lambda: b - s, "ConnectedShape", ab - as_, 2)
    if not case.get("full"):
        S0 = (lambda b, s: ~b | s)(*mk())
        for law, f, want in (("S & ~S", lambda S: S & ~S, E_), ("S - S", lambda S: S - S, E_)):
            r_ = I.outcome(lambda: f(S0))
            if r_[0] != "ok" or r_[1] is not want:
                fails.append(Fail(kind="O", what="singleton law %s fails on the complement of the ring of two curved disks" % law,
                                  impl=(r_[0], type(r_[1]).__name__ if r_[0] == "ok" else r_[1])))
        b, s = mk(); expect("~(~big | small)", lambda: ~(~b | s), "ConnectedShape", ab - as_, 2)
        return fails
    b, s = mk(); expect("big & ~small", lambda: b & ~s, "ConnectedShape", ab - as_, 2)
    b, s = mk(); expect("~(~big | small)", lambda: ~(~b | s), "ConnectedShape", ab - as_, 2)
    b, s = mk(); expect("~big | small", lambda: ~b | s, "DisjointShape", as_ - ab, 2)
    b, s = mk(); expect("big | small", lambda: b | s, "SimpleShape", ab, 1)
    b, s = mk(); expect("big & small", lambda: b & s, "SimpleShape", as_, 1)
    b, s = mk(); expect("small - big", lambda: s - b, "EmptyShape", 0.0, 0)
    for nm, mkS in (("ring", lambda: (lambda b, s: b - s)(*mk())), ("complement of the ring", lambda: (lambda b, s: ~b | s)(*mk()))):
        for law, f, want in (("S & ~S", lambda S: S & ~S, E_), ("S - S", lambda S: S - S, E_), ("S ^ S", lambda S: S ^ S, E_), ("S | ~S", lambda S: S | ~S, W_)):
            r_ = I.outcome(lambda: f(mkS()))
            if r_[0] != "ok" or r_[1] is not want:
                fails.append(Fail(kind="O", what="singleton law %s fails on the %s of two curved disks" % (law, nm),
                                  impl=(r_[0], type(r_[1]).__name__ if r_[0] == "ok" else r_[1])))
    return fails


def check(ctx, case):
    fails = []
    if "ring" in case:
        return _ring(ctx, case)
    if "laws" in case:
        s, num = case["laws"], case["num"]
        ctx.count("laws:" + U.shape_kind(s))
        E_, W_ = I.EmptyShape(), I.WholeShape()
        laws = [("S|~S", lambda S: S | ~S, W_), ("S&~S", lambda S: S & ~S, E_), ("S-S", lambda S: S - S, E_),
                ("S^S", lambda S: S ^ S, E_), ("S^~S", lambda S: S ^ ~S, W_), ("~S|S", lambda S: ~S | S, W_)]
        for name, f, want in laws:
            S = I.mk_shape(s, num)
            r = I.outcome(lambda: f(S))
            if r[0] != "ok" or r[1] is not want:
                fails.append(Fail(kind="O", what="singleton law %s fails" % name, impl=(r[0], type(r[1]).__name__ if r[0] == "ok" else r[1])))
        # the laws again on ONE object with a history: complement taken, the shape moved in place, the earlier
        # complement transformed in place -- S op ~S must still be the singletons
        S = I.mk_shape(s, num)
        hist_r = I.outcome(lambda: (~S, S - S))
        if hist_r[0] == "ok":
            c0 = hist_r[1][0]
            I.outcome(lambda: S.move(F(7, 2), F(-3)))
            for name, f, want in laws:
                r = I.outcome(lambda: f(S))
                if r[0] != "ok" or r[1] is not want:
                    fails.append(Fail(kind="O", what="singleton law %s fails after the complement was taken and the shape moved in place" % name,
                                      impl=(r[0], type(r[1]).__name__ if r[0] == "ok" else r[1])))
                    break
            if hasattr(c0, "scale"):
                I.outcome(lambda: c0.scale(2, 3))
                for name, f, want in laws:
                    r = I.outcome(lambda: f(S))
                    if r[0] != "ok" or r[1] is not want:
                        fails.append(Fail(kind="O", what="singleton law %s fails after an earlier complement of the shape was scaled in place" % name,
                                          impl=(r[0], type(r[1]).__name__ if r[0] == "ok" else r[1])))
                        break
        S = I.mk_shape(s, num)
        kinds = {"S": "SimpleShape", "C": "DisjointShape"}
        r = I.outcome(lambda: type(~S).__name__)
        if s[0] in kinds and r != ("ok", kinds[s[0]]):
            fails.append(Fail(kind="O", what="kind of the complement", impl=r, expected=kinds[s[0]]))
        if s[0] == "D" and r[0] == "ok" and r[1] not in ("ConnectedShape", "DisjointShape"):
            fails.append(Fail(kind="O", what="kind of the complement of a Disjoint", impl=r))
        # model: kind of the complement
        rm = ctx.model.op_not(s)
        ctx.k_cases += 1
        ri = I.outcome(lambda: I.shape_data(~I.mk_shape(s, num)))
        if U.res_same(ri, rm, lambda a, b: U.shape_same(a, b, True)):
            ctx.k_agreed += 1
        else:
            fails.append(Fail(kind="K", what="complement differs from model", impl=ri, model=rm))
        return fails
    env, e = case["env"], case["expr"]
    ri, objs = OC.run_impl(case)
    exact = case["num"] != "float"
    if not exact:
        env = OC.env_exact(case, objs)      # the exact values of the floats
        ctx.count("float:near-vertex crossing")
    for s in env:
        ctx.count("kind:" + U.shape_kind(s))
    if ri[0] != "ok":
        if OC.env_general_position(env):
            fails.append(Fail(kind="O", what="operator raised / hangs on general-position operands", impl=ri, expr=G.expr_str(e)))
        return fails
    R = ri[1]
    sd = I.shape_data(R)
    ctx.count("result:" + U.shape_kind(sd))
    if sd[0] == "E" and R is not I.EmptyShape() or sd[0] == "W" and R is not I.WholeShape():
        fails.append(Fail(kind="O", what="Empty/Whole result is not the singleton object"))
    for d in _wellformed(R, sd, exact):
        fails.append(Fail(kind="O", what="malformed result: " + d, expr=G.expr_str(e)))
    if not exact:
        # float data: the region away from the boundaries (1e-6) must be the set-theoretic one; no model run
        if sd[0] not in "EW":
            pts = OC.sample_points(env, margin_float=F(1, 10 ** 6))
            wrong = OC.pointwise_wrong(env, e, sd, pts)
            if wrong:
                fails.append(Fail(kind="O", what="result is not the set-theoretic combination at %d sample points" % len(wrong), expr=G.expr_str(e)))
        return fails
    # a geometrically empty / whole result must be the singleton: no sample point inside (resp. outside)
    if sd[0] not in "EW":
        pts = OC.sample_points(env + [sd])
        regs = {O.region(sd, p) for p in pts}
        if "in" not in regs:
            fails.append(Fail(kind="O", what="geometrically empty result is not EmptyShape", expr=G.expr_str(e)))
        if "out" not in regs:
            fails.append(Fail(kind="O", what="whole-plane result is not WholeShape", expr=G.expr_str(e)))
    rm = ctx.model.eval_expr(env, e)
    ctx.k_cases += 1
    if rm[0] == "ok" and rm[1][1][0] == sd[0]:
        ctx.k_agreed += 1
    else:
        fails.append(Fail(kind="K", what="kind of the result differs from the model", impl=sd[0], model=(rm[1][1][0] if rm[0] == "ok" else rm)))
    return fails
