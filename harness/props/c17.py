"""C17 -- Jordan-curve constructors agree with each other and reject open chains."""
import math
from fractions import Fraction as F

from .. import gen as G, impl as I, oracle as O, util as U
from ..core import Fail

PID = "C17"
RULE = ("closed curves (polygons; mixed-degree curves with degree 1..3 segments) described by from_vertices / "
        "from_ctrlpoints / from_segments (and from_full_curve for polygons given as a degree-1 pynurbs curve): == between "
        "all descriptions, same vertices (each control point once, in order), segments, box, signed length and area (also for curves with a deep inward arc whose extreme control point is off the curve); box asked / move or scale in place / box asked again; box "
        "encloses sampled points; sign of float(curve) = orientation; malformed stream: a gap at each junction "
        "(closing one included) of 0.5e-9 (accepted) / 2e-9 and larger (rejected), non-curve arguments; "
        "non-trivial = at least 3 segments; distinct = SHA-1")
PROOF_STATUS = ("Props/C17.v: constructors agree, vertices once in order, rejects exactly open chains (1e-9) with an "
                "assertion, accepted curves are closed chains, box encloses every point (degree <= 6)")


def _mixed_curve(rng):
    vs = G.ccw(G.star_polygon(rng, n=rng.randint(3, 6), R=8))
    j = []
    for a, b in G.poly_edges(vs):
        d = rng.choice([1, 1, 2, 3])
        mid = [((1 - F(t, d)) * a[0] + F(t, d) * b[0] + F(rng.randint(-3, 3), 4),
                (1 - F(t, d)) * a[1] + F(t, d) * b[1] + F(rng.randint(-3, 3), 4)) for t in range(1, d)]
        j.append([a] + mid + [b])
    return j


def cases(ctx):
    rng = ctx.rng
    for i in range(ctx.n(60, 1500)):
        if i % 6 == 5:
            yield {"k": "mixed", "j": G.coincident_curve(rng), "num": "frac" if i % 4 == 1 else "float", "coincident": True}
        elif i % 3 == 2:
            yield {"k": "mixed", "j": _mixed_curve(rng), "num": "frac" if i % 2 else "float"}
        else:
            vs = G.star_polygon(rng, R=rng.choice([5, 15]), den=rng.choice([1, 2, 8])) if i % 2 else G.lattice_polygon(rng, R=9)
            if rng.random() < 0.4:
                vs = vs[::-1]
            yield {"k": "poly", "vs": vs, "num": ["frac", "float", "int"][i % 3] if all(x.denominator == 1 for p in vs for x in p) else "frac"}
    # a rectangle one side of which is a quadratic arc bulging INTO the region, so deeply that its middle control
    # point lies beyond the opposite side (the extreme control point of the curve is not a point of the curve); all
    # four directions, both orientations
    for i in range(ctx.n(12, 120)):
        w, h = rng.randint(3, 8), rng.randint(3, 8)
        d = rng.choice([F(1, 2), F(1), F(2), F(5, 2)])              # how far the control point passes the opposite side (< h)
        if d >= h:
            d = F(h) / 2
        j = [[(F(0), F(0)), (F(w), F(0))], [(F(w), F(0)), (F(w), F(h))], [(F(w), F(h)), (F(w, 2), -d), (F(0), F(h))], [(F(0), F(h)), (F(0), F(0))]]
        rot = [lambda p: p, lambda p: (-p[1], p[0]), lambda p: (-p[0], -p[1]), lambda p: (p[1], -p[0])][i % 4]
        j = [[rot(p) for p in sg] for sg in j]
        if i % 8 >= 4:
            j = U.reverse_jordan(j)
        yield {"k": "mixed", "j": j, "num": "frac" if i % 3 == 0 else "float", "notch": True}
    for i in range(ctx.n(40, 600)):
        vs = G.lattice_polygon(rng, R=9)
        yield {"k": "gap", "vs": vs, "at": rng.randrange(len(vs)), "gap": rng.choice([F(1, 2 * 10 ** 9), F(2, 10 ** 9), F(1, 1000), F(1)]),
               "axis": rng.randrange(2)}
    for bad in ("int", "str", "none", "points"):
        yield {"k": "bad", "arg": bad}


def nontrivial(case):
    if case["k"] == "poly" or case["k"] == "gap":
        return len(case["vs"]) >= 3
    if case["k"] == "mixed":
        return len(case["j"]) >= 3
    return False


def _obs(J):
    b = J.box()
    return {"vertices": [I.pt(p) for p in J.vertices], "segments": I.jordan_data(J),
            "box": (I.num(b.lowpt[0]), I.num(b.lowpt[1]), I.num(b.toppt[0]), I.num(b.toppt[1])),
            "len": float(J), "area": I.num(I.IntegrateJordan.area(J))}


def check(ctx, case):
    fails = []
    k = case["k"]
    ctx.count("kind:" + k)
    if k == "bad":
        arg = {"int": 5, "str": "abc", "none": None, "points": [(0, 0), (1, 0), (0, 1)]}[case["arg"]]
        r = I.outcome(lambda: I.JordanCurve.from_segments(arg) if case["arg"] != "points" else I.JordanCurve(arg))
        if r[0] == "ok":
            fails.append(Fail(kind="O", what="non-curve argument accepted", arg=case["arg"]))
        return fails
    if k == "gap":
        vs, at, gap, ax = case["vs"], case["at"], case["gap"], case["axis"]
        segs = [[list(a), list(b)] for a, b in G.poly_edges(vs)]
        segs[at][1][ax] = segs[at][1][ax] + gap            # end of segment `at` no longer equals the next start
        jd = [[tuple(p) for p in s] for s in segs]
        r = I.outcome(lambda: I.jordan_data(I.JordanCurve.from_ctrlpoints(jd)))
        rm = ctx.model.from_ctrlpoints(jd)
        ctx.k_cases += 1
        if U.res_same(r, rm, lambda a, b: U.jordan_same(a, b, True, rotate=False)):
            ctx.k_agreed += 1
        else:
            fails.append(Fail(kind="K", what="from_ctrlpoints outcome differs from model", impl=r, model=rm))
        if gap > F(1, 10 ** 9) and r[0] == "ok":
            fails.append(Fail(kind="O", what="open chain accepted", gap=gap, at=at))
        if gap < F(1, 10 ** 9) and r[0] != "ok":
            fails.append(Fail(kind="O", what="chain closed within 1e-9 rejected", gap=gap, impl=r))
        if r[0] == "ok":
            j = r[1]
            if any(j[i][-1] != j[(i + 1) % len(j)][0] for i in range(len(j))):
                fails.append(Fail(kind="O", what="accepted curve is not a closed chain", impl=j))
        return fails
    num = case["num"]
    exact = num != "float"
    ctx.count("num:" + num)
    if k == "poly":
        vs = case["vs"]
        jd = G.verts_to_jordan(vs)
    else:
        jd = case["j"]
    cast = lambda p: (I.cast(p[0], num), I.cast(p[1], num))
    builds = {"ctrl": lambda: I.JordanCurve.from_ctrlpoints([[cast(p) for p in s] for s in jd]),
              "segs": lambda: I.JordanCurve.from_segments([I.PlanarCurve([cast(p) for p in s]) for s in jd])}
    if k == "poly":
        builds["verts"] = lambda: I.JordanCurve.from_vertices([cast(p) for p in vs])
        if num == "float":
            import pynurbs
            n = len(vs)
            def full():
                kv = [0.0] + [i / n for i in range(n + 1)] + [1.0]
                pts = [I.Point2D(cast(p)) for p in vs] + [I.Point2D(cast(vs[0]))]
                return I.JordanCurve.from_full_curve(pynurbs.Curve(kv, pts))
            builds["full"] = full
    objs = {}
    for name, f in builds.items():
        r = I.outcome(f)
        if r[0] != "ok":
            fails.append(Fail(kind="O", what="constructor %s raised on a closed curve" % name, impl=r))
        else:
            objs[name] = r[1]
    if not objs:
        return fails
    obs = {n: _obs(J) for n, J in objs.items()}
    ref_name = "ctrl" if "ctrl" in obs else list(obs)[0]
    ref = obs[ref_name]
    for n, o in obs.items():
        same = (len(o["vertices"]) == len(ref["vertices"]) and all(U.pt_same(a, b, exact) for a, b in zip(o["vertices"], ref["vertices"]))
                and U.jordan_same(o["segments"], ref["segments"], exact, rotate=False)
                and all(U.num_same(a, b, exact) for a, b in zip(o["box"], ref["box"]))
                and abs(o["len"] - ref["len"]) <= 1e-9 * max(1, abs(ref["len"])) and U.num_same(o["area"], ref["area"], exact))
        if not same:
            fails.append(Fail(kind="O", what="constructor %s disagrees with %s" % (n, ref_name), impl={k2: str(v)[:200] for k2, v in o.items()}))
        if k == "mixed" and exact:
            continue        # == on curved segments with Fraction data: the Newton projection blows up (minutes); float stream covers it
        req = I.outcome(lambda: bool(objs[n] == objs[ref_name]))
        if req != ("ok", True):
            fails.append(Fail(kind="O", what="curves from %s and %s are not ==" % (n, ref_name), impl=req))
    # vertices: each control point once, in order
    # the constructors degree-reduce degree-elevated segments: the control points meant are those of the
    # resulting segments (whose agreement with the exact reduction is part of the correspondence below)
    jx = ref["segments"]
    want_v = [p for s in jx for p in s[:-1]]
    if not (len(want_v) == len(ref["vertices"]) and all(U.pt_same(a, b, exact) for a, b in zip(ref["vertices"], want_v))):
        fails.append(Fail(kind="O", what="vertices are not the control points once each in order", impl=ref["vertices"], expected=want_v))
    # box encloses the curve; orientation sign; area
    b = ref["box"]
    for s in jx:
        for i in range(9):
            p = O.bez(s, F(i, 8))
            if not (b[0] <= p[0] <= b[2] and b[1] <= p[1] <= b[3]):
                fails.append(Fail(kind="O", what="box does not enclose the curve", p=p))
                break
    area = O.moment_jordan(jx, 0, 0)
    if (ref["len"] > 0) != (area > 0) or not U.num_same(ref["area"], area, exact):
        fails.append(Fail(kind="O", what="sign of float(curve) / area is not the orientation", impl=[ref["len"], ref["area"]], expected=area))
    if k == "poly":
        L = sum(math.hypot(float(b_[0] - a_[0]), float(b_[1] - a_[1])) for a_, b_ in G.poly_edges([s[0] for s in jx]))
        if abs(abs(ref["len"]) - L) > 1e-9 * max(1, L):
            fails.append(Fail(kind="O", what="|float(curve)| is not the length", impl=ref["len"], expected=L))
    # the vertex list is what move/scale/rotate iterate over: a moved copy must be the moved curve
    Jm = I.outcome(lambda: builds["ctrl"]().move((3, -2)))
    if Jm[0] == "ok":
        moved = I.jordan_data(Jm[1])
        wantm = [[(p[0] + 3, p[1] - 2) for p in sg] for sg in ref["segments"]]
        if not U.jordan_same(moved, wantm, exact, rotate=False):
            fails.append(Fail(kind="O", what="move() does not move every control point (vertex enumeration)", impl=str(moved)[:300]))
    # the box of one and the same object, asked, transformed in place, asked again: it must enclose the curve where
    # it is NOW (and the constructors must still agree with it)
    Jq = I.outcome(lambda: builds["ctrl"]())
    if Jq[0] == "ok":
        Jo = Jq[1]
        Jo.box()
        tname, act, f = [("move", lambda: Jo.move((F(21, 2), F(5))), lambda p: (p[0] + F(21, 2), p[1] + 5)),
                         ("scale", lambda: Jo.scale(F(3), F(1, 2)), lambda p: (p[0] * 3, p[1] / 2))][len(jx) % 2]
        r = I.outcome(act)
        if r[0] == "ok":
            nb = Jo.box()
            nbox = (I.num(nb.lowpt[0]), I.num(nb.lowpt[1]), I.num(nb.toppt[0]), I.num(nb.toppt[1]))
            for sg in ref["segments"]:
                for i in range(5):
                    q = f(O.bez(sg, F(i, 4)))
                    if not (nbox[0] - F(1, 10 ** 9) <= q[0] <= nbox[2] + F(1, 10 ** 9) and nbox[1] - F(1, 10 ** 9) <= q[1] <= nbox[3] + F(1, 10 ** 9)):
                        fails.append(Fail(kind="O", what="box() asked, %s(), box() asked again: the box does not enclose the curve any more" % tname, p=q, impl=nbox))
                        break
                else:
                    continue
                break
            # (== on curved segments with Fraction data takes minutes in the library: polygons only)
            straight = all(len(sg) == 2 for sg in ref["segments"])
            fresh = I.outcome(lambda: bool(Jo == I.JordanCurve.from_ctrlpoints([[f(p) for p in sg] for sg in ref["segments"]]))) if straight else ("ok", True)
            if fresh != ("ok", True) and exact:
                fails.append(Fail(kind="O", what="after box(), %s() the curve is not == to the curve constructed at its new place" % tname, impl=fresh))
    # model
    if exact:
        rm = ctx.model.from_ctrlpoints(jd)
        ctx.k_cases += 1
        if rm[0] == "ok" and U.jordan_same(rm[1], ref["segments"], True, rotate=False) and ctx.model.vertices(rm[1]) == ref["vertices"] \
                and ctx.model.jordan_box(rm[1]) == ref["box"] and ctx.model.jordan_area(rm[1]) == ref["area"]:
            ctx.k_agreed += 1
        else:
            fails.append(Fail(kind="K", what="constructed curve differs from model", impl=ref["segments"], model=rm))
    return fails
