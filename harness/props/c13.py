"""C13 -- rational input gives exact rational output (well-formed Fractions, never floats)."""
from fractions import Fraction as F

from .. import gen as G, impl as I, oracle as O, util as U
from ..core import Fail

PID = "C13"
RULE = ("(i) Point2D(x, y) for int/Fraction coordinates with denominators on both sides of 1e9 (up to 1e30) against the "
        "model of limit_denominator; (ii) every number in the results of operators, intersection, split, moments, move "
        "and scale on rational polygons: type (Fraction with int numerator/denominator) and exact value; int vs "
        "Fraction vs mixed inputs give equal outputs, each after a float evaluation of the same drawing in the same process; non-trivial = a denominator above 1e6 or a computed (not copied) "
        "value is involved; distinct = SHA-1 of the case")
PROOF_STATUS = ("Props/C13.v: limit_denominator model total/bounded/lowest terms/identity below the cap, 3.11 = 3.12 "
                "closing test; exact crossing parameters (C14), split points (C15), moments (C04)")


def cases(ctx):
    rng = ctx.rng
    for i in range(ctx.n(150, 4000)):
        e = rng.choice([3, 8, 9, 9, 10, 12, 18, 30])
        den = rng.randint(10 ** (e - 1), 10 ** e)
        num = rng.randint(-10 ** (e + 1), 10 ** (e + 1))
        den2 = rng.choice([1, 7, 10 ** 9, 10 ** 9 + 1, rng.randint(1, 10 ** 11)])
        yield {"k": "pt", "x": F(num, den), "y": F(rng.randint(-1000, 1000), den2)}
    for i in range(ctx.n(25, 500)):
        pr = G.gp_pair(rng, R=rng.choice([6, 12]), den=rng.choice([1, 2, 5]), kinds=("S", "S", "C", "U"), need_cross=True)
        if pr:
            yield {"k": "ops", "a": pr[0], "b": pr[1], "num": ["frac", "int", "mixed"][i % 3]}
    for i in range(ctx.n(20, 400)):
        R = rng.choice([3 * 10 ** 4, 10 ** 5, 10 ** 6])
        a = G.star_polygon(rng, n=rng.randint(3, 5), R=R)
        b = G.star_polygon(rng, n=rng.randint(3, 5), R=R, center=(float(a[0][0]), float(a[0][1])))
        yield {"k": "big", "a": a, "b": b}
    # vertex denominators just below the 1e9 cap (stored unchanged): the integrals must still be the exact rationals
    for i in range(ctx.n(8, 100)):
        vs = G.star_polygon(rng, R=10, den=rng.choice([999999937, 99999989, 67108864, 10 ** 9]))
        yield {"k": "xf", "vs": vs, "mv": (F(0), F(0)), "sc": (F(1), F(1))}
    for i in range(ctx.n(20, 300)):
        vs = G.star_polygon(rng, R=10, den=rng.choice([1, 3, 16]))
        yield {"k": "xf", "vs": vs, "mv": (F(rng.randint(-99, 99), rng.choice([1, 7, 1000])), F(rng.randint(-99, 99), 3)),
               "sc": (F(rng.randint(1, 50), rng.choice([1, 9])), F(rng.randint(1, 50), rng.choice([2, 11])))}


def nontrivial(case):
    if case["k"] == "pt":
        return case["x"].denominator > 10 ** 6
    return True


def _wf(x):
    """a well-formed exact rational: int, or Fraction with int numerator and denominator"""
    if isinstance(x, bool):
        return False
    if isinstance(x, int):
        return True
    return isinstance(x, F) and type(x.numerator) is int and type(x.denominator) is int and x.denominator > 0


def _numbers_of_shape(S):
    out = []
    for j in S.jordans:
        for s in j.segments:
            for p in s.ctrlpoints:
                out += [p[0], p[1]]
    return out


def _cast_mixed(s, rng_i):
    return s


def check(ctx, case):
    fails = []
    k = case["k"]
    ctx.count("kind:" + k)
    if k == "pt":
        x, y = case["x"], case["y"]
        r = I.outcome(lambda: I.Point2D(x, y))
        if r[0] != "ok":
            return [Fail(kind="O", what="Point2D raised on rational input", impl=r)]
        p = r[1]
        for got, q in ((p[0], x), (p[1], y)):
            want = ctx.model.norm_coord(q)
            ctx.k_cases += 1
            if _wf(got) and F(got) == want:
                ctx.k_agreed += 1
            else:
                fails.append(Fail(kind="K", what="stored coordinate differs from model limit_denominator", impl=repr(got), model=want))
            if not _wf(got):
                fails.append(Fail(kind="O", what="coordinate is not a well-formed Fraction", impl=repr(got), types=[type(getattr(got, "numerator", None)).__name__]))
            elif q.denominator <= 10 ** 9 and F(got) != q:
                fails.append(Fail(kind="O", what="coordinate with denominator <= 1e9 was changed", impl=repr(got), expected=q))
            elif F(got).denominator > 10 ** 9:
                fails.append(Fail(kind="O", what="stored denominator exceeds 1e9", impl=repr(got)))
            elif F(got) != I._orig_ld(q, 10 ** 9):
                # oracle: CPython's own limit_denominator with the documented cap
                fails.append(Fail(kind="O", what="stored coordinate is not limit_denominator(10**9) of the input", impl=repr(got), expected=q))
        return fails
    if k == "ops":
        a, b, num = case["a"], case["b"], case["num"]
        ctx.count("num:" + num)
        nt = "int" if num == "int" else "frac"
        for op in ("|&-^" if ctx.thorough() else "|&-^"[hash(repr(a)) % 2::2]):
            e = (op, ("var", 0), ("var", 1))
            # the same drawing evaluated with float coordinates first (a "preview"): the exact evaluation that
            # follows in the same process must not be contaminated by anything the float run left behind
            I.outcome(lambda: I.apply_expr([I.mk_shape(a, "float"), I.mk_shape(b, "float")], e))
            A, B = I.mk_shape(a, nt), I.mk_shape(b, "int" if num == "mixed" else nt)
            A1, B1 = I.mk_shape(a, "frac"), I.mk_shape(b, "frac")
            rr = I.outcome(lambda: I.shape_data(I.apply_expr([A1, B1], e)))
            r0 = ROUND0 = I.ROUNDINGS[0]
            ri = I.outcome(lambda: I.apply_expr([A, B], e))
            if ri[0] != "ok":
                fails.append(Fail(kind="O", what="operator raised on general-position rational polygons", op=op, impl=ri))
                continue
            R = ri[1]
            if hasattr(R, "jordans"):
                bad = [repr(x) for x in _numbers_of_shape(R) if not _wf(x)]
                if bad:
                    fails.append(Fail(kind="O", what="operator result has a coordinate that is not a well-formed Fraction", op=op, impl=bad[:3]))
                for ex, ey in ((1, 1), (2, 0), (0, 2), (4, 1)):
                    ar = I.IntegrateShape.polynomial(R, ex, ey)
                    want = sum(O.moment_jordan(j, ex, ey) for j in O.shape_jordans(I.shape_data(R)))
                    if not _wf(ar):
                        fails.append(Fail(kind="O", what="moment of a rational polygon is not an exact rational", op=op, impl=repr(ar)))
                    elif F(ar) != want:
                        fails.append(Fail(kind="O", what="moment x^%d y^%d of a rational polygon is not the exact value" % (ex, ey), op=op,
                                          impl=repr(ar), expected=want))
            rd = ("ok", I.shape_data(R))
            if rd != rr:
                fails.append(Fail(kind="O", what="int / Fraction / mixed inputs give different results", op=op, impl=rd, expected=rr))
            # exact values: model
            rm = ctx.model.eval_expr([a, b], e)
            ctx.k_cases += 1
            if rm[0] == "ok" and U.shape_same(rd[1], rm[1][1], True):
                ctx.k_agreed += 1
            elif I.ROUNDINGS[0] != r0:
                ctx.set_aside += 1
            else:
                fails.append(Fail(kind="K", what="operator result differs from the exact model", op=op, impl=rd, model=rm))
        # crossing parameters
        A, B = I.mk_shape(a, nt), I.mk_shape(b, "int" if num == "mixed" else nt)
        for ja in A.jordans:
            for jb in B.jordans:
                rows = ja.intersection(jb)
                for (_, _, u, v) in rows:
                    if u is not None and not (_wf(u) and _wf(v)):
                        fails.append(Fail(kind="O", what="crossing parameter is not an exact rational", impl=[repr(u), repr(v)]))
        return fails
    if k == "big":
        ja, jb = G.verts_to_jordan(case["a"]), G.verts_to_jordan(case["b"])
        A, B = I.mk_jordan(ja), I.mk_jordan(jb)
        r = I.outcome(lambda: A.intersection(B))
        if r[0] != "ok":
            return [Fail(kind="O", what="intersection raised", impl=r)]
        from .c14 import _exact_rows
        truth = _exact_rows(ja, jb)
        got = set()
        for (a, b, u, v) in r[1]:
            if u is None:
                continue
            if not (_wf(u) and _wf(v)):
                fails.append(Fail(kind="O", what="crossing parameter is not a well-formed exact rational", impl=[repr(u), repr(v)]))
            got.add((a, b, F(u), F(v)))
        ctx.count("big:max-denominator>1e9" if any(x[2].denominator > 10 ** 9 for x in truth) else "big:small-denominators")
        if got != truth:
            fails.append(Fail(kind="O", what="crossing parameters are not the exact rational values", impl=sorted(got - truth)[:2], expected=sorted(truth - got)[:2]))
        rm = ctx.model.intersection(ja, jb, True, True)
        ctx.k_cases += 1
        if rm[0] == "ok" and {(a, b, u, v) for (a, b, u, v) in rm[1] if u is not None} == got:
            ctx.k_agreed += 1
        else:
            fails.append(Fail(kind="K", what="crossing parameters differ from the model"))
        return fails
    if k == "xf":
        vs, mv, sc = case["vs"], case["mv"], case["sc"]
        S = I.Primitive.polygon([(p[0], p[1]) for p in vs])
        r0 = I.ROUNDINGS[0]
        def moments_exact(where, cur):
            # every moment asked of the SAME object at every stage must be the exact rational for where it is now
            for ex, ey in ((0, 0), (1, 0), (0, 1), (2, 0), (1, 2)):
                ar = I.IntegrateShape.polynomial(S, ex, ey)
                if not _wf(ar) or F(ar) != O.moment_jordan(G.verts_to_jordan(cur), ex, ey):
                    fails.append(Fail(kind="O", what="moment x^%d y^%d %s is not the exact rational of the current coordinates" % (ex, ey, where), impl=repr(ar)))
                    return
        moments_exact("before any transformation", [(p[0], p[1]) for p in vs])
        S.move(mv[0], mv[1])
        moments_exact("after move() of an object already integrated", [(p[0] + mv[0], p[1] + mv[1]) for p in vs])
        S.scale(sc[0], sc[1])
        got = [(p[0], p[1]) for p in S.jordans[0].vertices]
        want = [((p[0] + mv[0]) * sc[0], (p[1] + mv[1]) * sc[1]) for p in vs]
        if not all(_wf(x) for p in got for x in p):
            fails.append(Fail(kind="O", what="move/scale produced a non-exact coordinate", impl=repr(got[:2])))
        elif [tuple(map(F, p)) for p in got] != want:
            fails.append(Fail(kind="O", what="move/scale on rationals is not exact", impl=got, expected=want))
        for ex, ey in ((0, 0), (2, 0), (1, 2)):
            ar = I.IntegrateShape.polynomial(S, ex, ey)
            if not _wf(ar) or F(ar) != O.moment_jordan(G.verts_to_jordan(want), ex, ey):
                fails.append(Fail(kind="O", what="moment x^%d y^%d after move/scale is not the exact rational" % (ex, ey), impl=repr(ar)))
        return fails
    return fails
