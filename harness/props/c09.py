"""C09 -- move / rotate / scale transform the region exactly as the affine map does."""
import math
from fractions import Fraction as F

from .. import gen as G, impl as I, oracle as O, util as U, hist as H
from ..core import Fail

PID = "C09"
RULE = ("shapes of all kinds (bounded, unbounded, holes, several components) x sequences of 1-4 transformations with "
        "int / Fraction / float parameters, special values (0 / 1 in one coordinate only, identity, full and quarter turns) (move; scale with positive factors; rotate by rational points of the unit "
        "circle given as float angles, by arbitrary float angles, and in degrees); observables after every step: "
        "control points (exact for move/scale on rationals, 1e-9 otherwise), return value is the same object, area = "
        "|det| x area, first/second moments against the exact oracle on the mapped polygon, p in S vs T(p) in T(S) on "
        "slab samples, inverse sequence restores the original; non-trivial = a composite or unbounded shape or >= 2 "
        "transformations; distinct = SHA-1")
PROOF_STATUS = ("Props/C09.v: object level -- every history, each distinct point transformed exactly once, same variable, "
                "frame; value level -- region under translation / positive scaling, area by det, moments, exact inverses")


def cases(ctx):
    rng = ctx.rng
    for i in range(ctx.n(40, 800)):
        s = G.any_shape(rng, R=rng.choice([6, 12]), den=rng.choice([1, 2]), kinds=("S", "U", "C", "D"))
        n = rng.randint(1, 4)
        seq = []
        for _ in range(n):
            r = rng.random()
            if r < 0.4:
                t = rng.choice(["int", "frac", "float"])
                v = {"int": (rng.randint(-9, 9), rng.randint(-9, 9)),
                     "frac": (F(rng.randint(-30, 30), 7), F(rng.randint(-30, 30), 4)),
                     "float": (rng.uniform(-5, 5), rng.uniform(-5, 5))}[t]
                seq.append(("move", v))
            elif r < 0.75:
                t = rng.choice(["int", "frac", "float"])
                v = {"int": (rng.randint(1, 5), rng.randint(1, 5)),
                     "frac": (F(rng.randint(1, 20), 6), F(rng.randint(1, 20), 9)),
                     "float": (rng.uniform(0.2, 4), rng.uniform(0.2, 4))}[t]
                seq.append(("scale", v))
            else:
                if rng.random() < 0.5:
                    seq.append(("rot", rng.uniform(-7, 7), False))
                else:
                    seq.append(("rot", rng.uniform(-400, 400), True))
        if i % 5 == 4:
            s = ("S", G.coincident_curve(rng))
            yield {"shape": s, "seq": seq, "num": "float", "curved": True}
            continue
        yield {"shape": s, "seq": seq, "num": "frac" if i % 3 else "float"}
    yield from _special_cases(rng, ctx.n(22, 220))


def _special_cases(rng, n):
    """parameter values that a short-cut or a truthiness test could single out: factors and offsets equal to 0 / 1 in one
    coordinate only, in every numeric type, identity transformations, full and quarter turns"""
    import math
    specials = [("scale", (2, 1)), ("scale", (1, 3)), ("scale", (F(1, 3), 1)), ("scale", (1, F(5, 2))), ("scale", (4.0, 1.0)),
                ("scale", (1.0, 0.5)), ("scale", (F(1), F(7, 2))), ("scale", (F(7, 2), F(1))), ("scale", (1, 1)), ("scale", (3, 3)),
                ("move", (0, 5)), ("move", (F(-7, 3), 0)), ("move", (0.0, -2.5)), ("move", (0, 0)), ("move", (F(0), F(3, 4))),
                ("rot", 0.0, False), ("rot", 0, True), ("rot", 360.0, True), ("rot", 90.0, True), ("rot", 2 * math.pi, False),
                ("rot", -180.0, True), ("rot", math.pi / 2, False)]
    for i in range(n):
        s = G.any_shape(rng, R=8, den=1, kinds=("S", "C", "D", "U"))
        tr = specials[i % len(specials)]
        yield {"shape": s, "seq": [tr] if i % 3 else [tr, specials[(i * 7 + 3) % len(specials)]], "num": "frac" if tr[0] != "rot" else "float",
               "special": True}


def nontrivial(case):
    if case.get("special"):
        return True
    s = case["shape"]
    return s[0] in "CD" or (s[0] == "S" and not O.ccw(s[1])) or len(case["seq"]) >= 2


def _apply(tr, p):
    if tr[0] == "move":
        return (p[0] + U.tofrac(tr[1][0]), p[1] + U.tofrac(tr[1][1]))
    if tr[0] == "scale":
        return (p[0] * U.tofrac(tr[1][0]), p[1] * U.tofrac(tr[1][1]))
    ang = tr[1] * (math.pi / 180) if tr[2] else tr[1]
    c, s = F(math.cos(ang)), F(math.sin(ang))
    return (c * p[0] - s * p[1], s * p[0] + c * p[1])


def _det(tr):
    if tr[0] == "scale":
        return U.tofrac(tr[1][0]) * U.tofrac(tr[1][1])
    return F(1)


def check(ctx, case):
    fails = []
    s, seq, num = case["shape"], case["seq"], case["num"]
    S = I.mk_shape(s, num)
    ctx.count("kind:" + U.shape_kind(s))
    cur = I.shape_data(S)                 # exact data the implementation holds
    exact = num != "float"
    ids0 = [id(p) for j in S.jordans for sg in j.segments for p in sg.ctrlpoints]
    for n, tr in enumerate(seq):
        ctx.count("op:" + tr[0])
        f = {"move": lambda: S.move(tr[1][0], tr[1][1]), "scale": lambda: S.scale(tr[1][0], tr[1][1]),
             "rot": lambda: S.rotate(tr[1], tr[2]) if tr[0] == "rot" else None}[tr[0]]
        r = I.outcome(f)
        if r[0] != "ok":
            return [Fail(kind="O", what="transformation raised on valid arguments", tr=repr(tr), impl=r)]
        if r[1] is not S:
            fails.append(Fail(kind="O", what="transformation does not return the same object", tr=repr(tr)))
        step_exact = exact and tr[0] != "rot" and all(U.is_exact(x) for x in (tr[1] if tr[0] != "rot" else ()))
        exact = exact and step_exact
        want = U.map_shape(cur, lambda p: _apply(tr, p))
        got = I.shape_data(S)
        same = all(U.jordan_same(a, b, step_exact, rotate=False) for a, b in zip(O.shape_jordans(got), O.shape_jordans(want))) \
            and got[0] == want[0] and len(O.shape_jordans(got)) == len(O.shape_jordans(want))
        if not same:
            fails.append(Fail(kind="O", what="control points are not the image under the map (a point moved twice / a curve skipped?)",
                              tr=repr(tr), step=n))
            return fails
        if step_exact:
            # exactness: values stay well-formed Fractions
            for j in S.jordans:
                for v in j.vertices:
                    if not (isinstance(v[0], (int, F)) and isinstance(v[1], (int, F))):
                        fails.append(Fail(kind="O", what="rational input did not stay exact under %s" % tr[0], impl=repr(v)))
        # area, moments against the oracle on the mapped polygon; membership transported
        a_old, a_new = O.moment_shape(cur, 0, 0), I.num(I.IntegrateShape.area(S))
        if not U.num_close(a_new, _det(tr) * a_old, 1e-9, 1e-9):
            fails.append(Fail(kind="O", what="area is not |det T| times the old area", impl=a_new, expected=_det(tr) * a_old, tr=repr(tr)))
        for (a, b) in (((1, 0), (0, 1), (1, 1), (2, 0)) if not case.get("curved") else ()):
            m = I.num(I.IntegrateShape.polynomial(S, a, b))
            mo = O.moment_shape(got, a, b)
            mw = O.moment_shape(want, a, b)
            if not U.num_close(m, mw, 1e-8, 1e-8):
                fails.append(Fail(kind="O", what="moment x^%d y^%d does not transform with the map" % (a, b), impl=m, expected=mw))
        if case.get("curved"):
            cur = got
            continue            # membership / moments of curved shapes: control points and area are checked above
        pts = O.slab_samples(O.shape_jordans(cur))[:: 3]
        for p in pts:
            r0 = O.region(cur, p)
            if r0 not in ("in", "out"):
                continue
            q = _apply(tr, p)
            # stay clear of the boundary for inexact steps
            if not step_exact and min(_d2(q, a_, b_) for j in O.shape_jordans(got) for a_, b_ in O.edges_of(j)) < F(1, 10 ** 8):
                continue
            gotin = bool(S.contains_point((q[0], q[1]) if step_exact else (float(q[0]), float(q[1])), True))
            if gotin != (r0 == "in"):
                fails.append(Fail(kind="O", what="T(p) in T(S) differs from p in S", p=p, tr=repr(tr)))
                break
        cur = got
    ids1 = [id(p) for j in S.jordans for sg in j.segments for p in sg.ctrlpoints]
    if ids0 != ids1:
        fails.append(Fail(kind="O", what="transformations replaced control point objects"))
    # inverse sequence restores the original
    start = I.shape_data(I.mk_shape(s, num))
    for tr in reversed(seq):
        if tr[0] == "move":
            S.move(-tr[1][0], -tr[1][1])
        elif tr[0] == "scale":
            S.scale(1 / U.tofrac(tr[1][0]) if U.is_exact(tr[1][0]) else 1 / tr[1][0],
                    1 / U.tofrac(tr[1][1]) if U.is_exact(tr[1][1]) else 1 / tr[1][1])
        else:
            S.rotate(-tr[1], tr[2])
    back = I.shape_data(S)
    ok = all(U.jordan_same(a, b, exact, rotate=False) if exact else
             all(abs(float(p[0] - q[0])) < 1e-7 and abs(float(p[1] - q[1])) < 1e-7 for sa, sb in zip(a, b) for p, q in zip(sa, sb))
             for a, b in zip(O.shape_jordans(back), O.shape_jordans(start)))
    if not ok:
        fails.append(Fail(kind="O", what="the inverse transformations do not restore the original"))
    elif exact:
        req = I.outcome(lambda: bool(S == I.mk_shape(s, num)))
        if req != ("ok", True):
            fails.append(Fail(kind="O", what="restored shape is not == the original (exact move/scale round trip)", impl=req))
    # correspondence with MH for the exact prefix of the sequence (move/scale with rational parameters)
    if num != "float":
        hist = [("new", I.shape_data(I.mk_shape(s, num)), "frac")]
        d = hist[0][1]
        for tr in seq:
            if tr[0] == "rot" or not all(U.is_exact(x) for x in tr[1]):
                break
            hist.append((tr[0], 0, (F(tr[1][0]), F(tr[1][1]))))
            d = U.map_shape(d, lambda p: _apply(tr, p))
        rm = H.model_run(ctx.model, hist)
        ctx.k_cases += 1
        if rm[0] == "ok" and rm[1].wf and U.shape_same(rm[1].shape_data(0), d, True):
            ctx.k_agreed += 1
        else:
            fails.append(Fail(kind="K", what="heap model disagrees on the transformed control points"))
    return fails


def _d2(p, a, b):
    from ..opcases import dist2_point_seg
    return dist2_point_seg(p, a, b)
