"""C08 -- operators and queries leave operands unchanged; results share no state."""
from fractions import Fraction as F

from .. import gen as G, impl as I, oracle as O, util as U, hist as H
from ..core import Fail

PID = "C08"
RULE = ("histories of 3-10 operations over 2+ variables: constructors of all kinds, deepcopy, ~, operators | & - ^ on "
        "general-position operands, queries (contains, float), then in-place move/scale/rotate of operands or results; "
        "after EVERY step: exact control points of every live object, the aliasing partition of all control-point slots "
        "(id() vs heap locations of the model MH), snapshots of all untouched variables, and the ANSWERS of every object not transformed in that step (box, area, membership of its own boundary points) before and after; non-trivial = the history "
        "contains an operator and a later in-place transformation; distinct = SHA-1 of the history")
PROOF_STATUS = ("Props/C08.v: frame theorems for move/scale/rotate and for all value operations in every reachable state, "
                "variables never share curves or point objects, operands of operators are only re-split")


def cases(ctx):
    rng = ctx.rng
    for i in range(ctx.n(60, 900)):
        yield {"hist": H.gen_history(rng, rng.randint(3, 8), nvars0=rng.choice([2, 2, 3]), R=rng.choice([6, 10]))}
    # curved shapes (interior control points are not junctions): constructors, copies, complements, short-cut
    # operators (x | Empty, x & x, x | contained), then in-place transformations of either side
    for i in range(ctx.n(16, 300)):
        kind = i % 3
        if kind == 0:
            curved = I.shape_data(I.Primitive.circle(rng.choice([1, 2, F(3, 2)]), (rng.randint(-3, 3), rng.randint(-3, 3)), rng.choice([4, 6, 8])))
        else:
            vs = G.ccw(G.star_polygon(rng, n=rng.randint(3, 5), R=6))
            d = 2 if kind == 1 else 3
            j = []
            for a, b in G.poly_edges(vs):
                mid = [((1 - F(t, d)) * a[0] + F(t, d) * b[0] + F(rng.choice([-1, 1]), 4), (1 - F(t, d)) * a[1] + F(t, d) * b[1] + F(rng.choice([-1, 1]), 4)) for t in range(1, d)]
                j.append([a] + mid + [b])
            curved = ("S", j)
        big = ("S", G.verts_to_jordan(G.ccw([(F(-40), F(-40)), (F(40), F(-40)), (F(40), F(40)), (F(-40), F(40))])))
        ops = [("new", curved, "frac"), ("new", big, "frac"), ("new", ("E",), "frac")]
        mk = [("copy", 0), ("not", 0), ("bin", "|", 0, 2), ("bin", "&", 0, 0), ("bin", "&", 1, 0), ("bin", "|", 2, 0)][i % 6]
        ops.append(mk)
        tgt = 3 if i % 2 else 0
        ops.append([("move", tgt, (F(5, 2), F(-1))), ("scale", tgt, (F(2), F(3))), ("rot", tgt, (F(3, 5), F(4, 5)))][(i // 2) % 3])
        yield {"hist": ops, "curved": True}
    if ctx.thorough():
        # all histories of length <= 3 over a small alphabet on two fixed overlapping shapes
        import itertools
        a = ("S", G.verts_to_jordan(G.ccw([(F(0), F(0)), (F(4), F(1)), (F(3), F(5)), (F(-1), F(3))])))
        b = ("S", G.verts_to_jordan(G.ccw([(F(2), F(-1)), (F(6), F(2)), (F(2), F(3))])))
        alpha = [("bin", "|", 0, 1), ("bin", "-", 0, 1), ("bin", "^", 1, 0), ("copy", 0), ("not", 1),
                 ("move", 0, (F(1), F(2))), ("scale", 1, (F(2), F(3))), ("contains", 0, (F(1), F(1)), True)]
        for n in (1, 2, 3):
            for ops in itertools.product(alpha, repeat=n):
                yield {"hist": [("new", a, "frac"), ("new", b, "frac")] + list(ops), "exhaustive": True}


def nontrivial(case):
    if case.get("curved"):
        return True
    ks = [op[0] for op in case["hist"]]
    if "bin" not in ks:
        return False
    i = ks.index("bin")
    return any(k in ("move", "scale", "rot") for k in ks[i + 1:])


def _behaviour(env):
    """what each live object ANSWERS (not what it stores): bounding box, area, membership of some of its own boundary
    points and of a point off its boundary -- asked before and after every step (which also fills whatever the
    library memoises, so that state shared through a memo shows)"""
    out = []
    for S in env:
        if isinstance(S, (I.EmptyShape, I.WholeShape)):
            out.append(type(S).__name__)
            continue
        def ask(S=S):
            b = S.box()
            ans = [tuple(map(str, b.lowpt)), tuple(map(str, b.toppt)), float(S)]
            for J in S.jordans:
                sg = J.segments[0]
                p0, p1 = sg.ctrlpoints[0], sg.ctrlpoints[-1]
                mid = sg(0.5)
                far = (p0[0] + 1000, p0[1] + 777)
                ans.append([bool(S.contains_point((p0[0], p0[1]), True)), bool(S.contains_point((mid[0], mid[1]), True)),
                            bool(S.contains_point((mid[0], mid[1]), False)), bool(S.contains_point(far, True)),
                            bool((p1[0], p1[1]) in J)])
            return ans
        out.append(I.outcome(ask))
    return out


def _same_answers(x, y):
    """equal, the float area up to 1e-9 relative (re-splitting a float curve changes the order of a sum)"""
    if x == y:
        return True
    if not (isinstance(x, tuple) and isinstance(y, tuple) and x[0] == y[0] == "ok"):
        return False
    a, b = x[1], y[1]
    return a[:2] == b[:2] and a[3:] == b[3:] and abs(a[2] - b[2]) <= 1e-9 * max(1.0, abs(a[2]))


def check(ctx, case):
    fails = []
    hist = case["hist"]
    exact = H.is_exact_history(hist)
    env = []
    for n, op in enumerate(hist):
        before = H.snapshot(env)
        bbefore = _behaviour(env)
        ids_before = [id(S) for S in env]
        try:
            H.impl_step(env, op)
        except Exception as exc:
            if case.get("exhaustive"):
                return fails          # e.g. the operands are no longer in general position after a transformation
            fails.append(Fail(kind="O", what="operation raised", op=repr(op)[:200], impl=I.kind_of(exc)))
            return fails
        ctx.count("op:" + op[0])
        after = H.snapshot(env)
        bafter = _behaviour(env)
        k = op[0]
        # the ANSWERS of every object that was not itself transformed in place are what they were
        for v in range(len(bbefore)):
            if k in ("move", "scale", "rot") and v == op[1]:
                continue
            if not _same_answers(bbefore[v], bafter[v]):
                fails.append(Fail(kind="O", what="after %s the answers (box / area / membership of own boundary points) of variable %d changed although "
                                  "it was not transformed" % (k, v), step=n, impl=str(bafter[v])[:300], expected=str(bbefore[v])[:300]))
                return fails
        touched = set()
        if k == "bin":
            touched = {op[2]} if op[1] == "-" else {op[2], op[3]}     # a - b = a & ~b: only a is re-split
        if k in ("move", "scale", "rot"):
            x = op[1]
            for v in range(len(before)):
                if v != x and before[v] != after[v]:
                    fails.append(Fail(kind="O", what="in-place %s of variable %d changed variable %d" % (k, x, v), step=n))
            if before[x] == after[x] and k != "rot" and before[x][0] not in "EW" and op[2] not in ((0, 0), (1, 1)):
                fails.append(Fail(kind="O", what="in-place %s did not change its target" % k, step=n))
        else:
            for v in range(len(before)):
                if [id(S) for S in env][v] != ids_before[v]:
                    fails.append(Fail(kind="O", what="variable rebound", step=n))
                if v in touched:
                    if not H.resplit_of(before[v], after[v], exact):
                        fails.append(Fail(kind="O", what="operator %s changed its operand %d (not a mere re-split)" % (op[1], v), step=n))
                elif before[v] != after[v]:
                    fails.append(Fail(kind="O", what="%s changed variable %d" % (k, v), step=n))
        # no point object is shared between two variables
        owner = {}
        for (v, c, i, kk), ident in H.impl_slots(env):
            if ident in owner and owner[ident] != v:
                fails.append(Fail(kind="O", what="variables %d and %d share a control point object" % (owner[ident], v), step=n))
                break
            owner[ident] = v
        if fails:
            return fails
    # correspondence with MH: geometry and aliasing partition at the end (and at a random prefix in thorough)
    if case.get("curved"):
        if any(op[0] == "bin" for op in hist):
            return fails            # crossing search on curved segments is outside the value model
        exact = False               # circle data are floats: the implementation rounds, the model does not
    rm = H.model_run(ctx.model, hist)
    ctx.k_cases += 1
    if rm[0] != "ok":
        fails.append(Fail(kind="K", what="model fails on a history the implementation executes", model=rm[:2]))
        return fails
    diffs = H.compare(env, rm[1], exact)
    if diffs or not rm[1].wf:
        fails.append(Fail(kind="K", what="heap model differs: %s (heap_wf %s)" % ("; ".join(diffs)[:400], rm[1].wf)))
    else:
        ctx.k_agreed += 1
    return fails
