"""C20 -- plotting draws exactly the boundary of the shape."""
from fractions import Fraction as F

from .. import gen as G, impl as I, oracle as O, util as U
from ..core import Fail

PID = "C20"
RULE = ("shapes of every kind (Empty, Whole, simple bounded/unbounded, holes, several components) whose boundaries mix "
        "segments of degree 1, 2 and 3 (degree checked AFTER construction, which degree-reduces), a quarter of the curved "
        "segments with a zero-length handle (two coincident consecutive control points), plotted with "
        "ShapePloter on an Agg canvas; sequences of shapes through the same control points grouped into different segment degrees, drawn one after the other in one process; observables: number, order and kind of the patches added to the axes, "
        "Path.vertices / Path.codes of every patch decoded by the harness's own reader of matplotlib path codes, face "
        "colours (filled vs white hole), background, shape data before/after; non-trivial = at least one curved segment "
        "or more than one boundary curve; distinct = SHA-1")
PROOF_STATUS = ("Props/C20.v: decode(path) = boundary for every curve with segments of degree <= 3 and every component; patch "
                "structure (one region per component, one outline per curve, fill iff bounded); old code refuted (F3)")


def _curvy(rng, vs, degs):
    j = []
    for a, b in G.poly_edges(vs):
        d = rng.choice(degs)
        mid = [((1 - F(t, d)) * a[0] + F(t, d) * b[0] + F(rng.choice([-2, -1, 1, 2]), 8) * (1 if t % 2 else -1),
                (1 - F(t, d)) * a[1] + F(t, d) * b[1] + F(rng.choice([-2, -1, 1, 2]), 8)) for t in range(1, d)]
        if d >= 2 and rng.random() < 0.25:
            # coincident consecutive control points (a zero-length handle): still a segment of degree d
            k = rng.choice([0, d - 1])
            mid[k if k == 0 else -1] = a if k == 0 else b
        j.append([a] + mid + [b])
    return j


def cases(ctx):
    rng = ctx.rng
    yield {"shape": ("E",)}
    yield {"shape": ("W",)}
    # regression witness of the repaired defect F3
    yield {"shape": ("S", [[(F(0), F(0)), (F(1), F(-1)), (F(2), F(1)), (F(3), F(0))], [(F(3), F(0)), (F(3), F(3))],
                           [(F(3), F(3)), (F(0), F(3)), (F(0), F(0))]])}
    # bounded components whose holes have more total perimeter than the outer boundary; unbounded connected shapes
    for m in (2, 3):
        side = F(4 * m)
        outer = G.verts_to_jordan(G.ccw([(F(0), F(0)), (side, F(0)), (side, side), (F(0), side)]))
        holes = []
        for a in range(m):
            for b in range(m):
                x0, y0 = F(4 * a) + F(1, 2), F(4 * b) + F(1, 2)
                holes.append(G.verts_to_jordan(G.cw([(x0, y0), (x0 + 3, y0), (x0 + 3, y0 + 3), (x0, y0 + 3)])))
        yield {"shape": ("C", [outer] + holes)}
        yield {"shape": ("D", [("C", [outer] + holes), ("S", G.verts_to_jordan(G.ccw([(F(-9), F(0)), (F(-5), F(0)), (F(-7), F(3))])))])}
    comb = G.verts_to_jordan(G.cw([(F(1), F(1)), (F(9), F(1)), (F(9), F(2)), (F(2), F(2)), (F(2), F(3)), (F(9), F(3)), (F(9), F(4)), (F(2), F(4)),
                                   (F(2), F(5)), (F(9), F(5)), (F(9), F(6)), (F(1), F(6))]))
    yield {"shape": ("C", [G.verts_to_jordan(G.ccw([(F(0), F(0)), (F(10), F(0)), (F(10), F(7)), (F(0), F(7))])), comb])}
    for i in range(ctx.n(4, 60)):
        yield {"shape": G.unbounded_connected(rng, R=rng.choice([8, 12]))}
    # the same control points, in the same order, grouped differently (polygon / quadratic / cubic pieces), drawn one
    # after the other
    for i in range(ctx.n(6, 80)):
        vs = G.ccw(G.star_polygon(rng, n=rng.choice([4, 6, 6, 8]), R=8, center=(0, 0), rmin=0.7))
        members = [("S", G.verts_to_jordan(vs))] + [("S", _regroup(vs, rng)) for _ in range(2)]
        rng.shuffle(members)
        if i % 3 == 2:
            members = [("S", U.reverse_jordan(m[1])) for m in members]
        yield {"seq": members, "num": "float" if i % 2 else "frac"}
    for i in range(ctx.n(40, 600)):
        s = G.any_shape(rng, R=rng.choice([6, 12]), kinds=("S", "S", "U", "C", "D"))
        degs = [(1,), (1, 2), (1, 2, 3), (2, 3), (3,)][i % 5]
        s2 = U.map_shape(s, lambda p: p)
        def curvify(j):
            return _curvy(rng, [sg[0] for sg in j], degs)
        if s[0] == "S":
            s2 = ("S", curvify(s[1]))
        elif s[0] == "C":
            s2 = ("C", [curvify(s[1][0])] + list(s[1][1:]))
        else:
            s2 = ("D", [("S", curvify(c[1])) if c[0] == "S" else c for c in s[1]])
        yield {"shape": s2, "num": "float" if i % 2 else "frac"}


def _regroup(vs, rng):
    """a closed curve through the same control points in the same order, grouped into segments of degree 1, 2 or 3"""
    n = len(vs)
    j, i = [], 0
    while i < n:
        d = rng.choice([1, 2, 3])
        d = min(d, n - i)
        j.append([vs[(i + t) % n] for t in range(d + 1)])
        i += d
    return j


def nontrivial(case):
    if "seq" in case:
        return True
    s = case["shape"]
    js = O.shape_jordans(s)
    return len(js) > 1 or any(len(sg) > 2 for j in js for sg in j)


def decode(verts, codes):
    """the harness's reader of matplotlib path codes -> list of closed curves (lists of control-point lists)"""
    curves, cur, start, segs = [], None, None, None
    i = 0
    n = len(codes)
    while i < n:
        c = int(codes[i])
        v = (float(verts[i][0]), float(verts[i][1]))
        if c == 1:
            if segs is not None:
                return None
            start, cur, segs = v, v, []
            i += 1
        elif c == 2:
            segs.append([cur, v])
            cur = v
            i += 1
        elif c == 3:
            if i + 1 >= n or int(codes[i + 1]) != 3:
                return None
            v2 = (float(verts[i + 1][0]), float(verts[i + 1][1]))
            segs.append([cur, v, v2])
            cur = v2
            i += 2
        elif c == 4:
            if i + 2 >= n or int(codes[i + 1]) != 4 or int(codes[i + 2]) != 4:
                return None
            v2 = (float(verts[i + 1][0]), float(verts[i + 1][1]))
            v3 = (float(verts[i + 2][0]), float(verts[i + 2][1]))
            segs.append([cur, v, v2, v3])
            cur = v3
            i += 3
        elif c == 79:
            if segs is None:
                return None
            if cur != start:
                segs.append([cur, start])
            curves.append(segs)
            segs, cur, start = None, None, None
            i += 1
        else:
            return None
    if segs is not None:
        return None
    return curves


def _close_curve(a, b, tol):
    if len(a) != len(b):
        return False
    for sa, sb in zip(a, b):
        if len(sa) != len(sb):
            return False
        for p, q in zip(sa, sb):
            if abs(p[0] - float(q[0])) > tol or abs(p[1] - float(q[1])) > tol:
                return False
    return True


def check(ctx, case):
    if "seq" in case:
        # several shapes drawn one after the other in the same process: each drawing depends on its own shape only
        fails = []
        for k, sh in enumerate(case["seq"]):
            ctx.count("sequence member")
            for f in check(ctx, {"shape": sh, "num": case.get("num", "frac")}):
                f["what"] = "drawn as number %d of a sequence: %s" % (k + 1, f.get("what"))
                fails.append(f)
        return fails
    import matplotlib
    matplotlib.use("Agg")
    from matplotlib import pyplot
    from shapepy.plot import ShapePloter
    fails = []
    s = case["shape"]
    S = I.mk_shape(s, case.get("num", "frac"))
    before = I.shape_data(S)
    ctx.count("kind:" + U.shape_kind(s))
    fig, ax = pyplot.subplots()
    try:
        bg0 = ax.get_facecolor()
        pl = ShapePloter(fig=fig, ax=ax)
        r = I.outcome(lambda: pl.plot(S))
        if r[0] != "ok":
            return [Fail(kind="O", what="plot raised", impl=r)]
        patches = list(ax.patches)
        after = I.shape_data(S)
        if after != before:
            fails.append(Fail(kind="O", what="plotting modified the shape"))
        if s[0] == "E":
            if patches or ax.get_facecolor() != bg0:
                fails.append(Fail(kind="O", what="Empty draws something"))
            return fails
        if s[0] == "W":
            if patches or ax.get_facecolor() == bg0:
                fails.append(Fail(kind="O", what="Whole must only colour the background"))
            return fails
        comps = before[1] if before[0] == "D" else [before]
        # expected structure: per component one region patch then one outline per curve
        exp = []
        for c in comps:
            cj = O.shape_jordans(c)
            area = sum(O.moment_jordan(j, 0, 0) for j in cj)
            exp.append(("region", cj, area > 0))
            for j in cj:
                exp.append(("outline", [j], O.moment_jordan(j, 0, 0) > 0))
        if len(patches) != len(exp):
            fails.append(Fail(kind="O", what="number of patches", impl=len(patches), expected=len(exp)))
            return fails
        any_unbounded = False
        for pt, (kind, curves, positive) in zip(patches, exp):
            path = pt.get_path()
            dec = decode(path.vertices, path.codes)
            tol = 2e-6 if kind == "outline" else 1e-9
            if dec is None or len(dec) != len(curves) or not all(_close_curve(d, c, tol) for d, c in zip(dec, curves)):
                fails.append(Fail(kind="O", what="%s path does not retrace the boundary segment by segment" % kind,
                                  codes=[int(x) for x in path.codes][:40]))
                continue
            fc = pt.get_facecolor()
            if kind == "region":
                white = tuple(round(x, 3) for x in fc[:3]) == (1.0, 1.0, 1.0)
                if positive and (white or fc[3] == 0):
                    fails.append(Fail(kind="O", what="bounded component is not filled"))
                if not positive:
                    any_unbounded = True
                    if not white:
                        fails.append(Fail(kind="O", what="unbounded component is not drawn as a hole"))
            else:
                if fc[3] != 0:
                    fails.append(Fail(kind="O", what="outline patch is filled"))
                ec = tuple(round(x, 3) for x in pt.get_edgecolor()[:3])
                if ec != ((1.0, 0.0, 0.0) if positive else (0.0, 0.0, 1.0)):
                    fails.append(Fail(kind="O", what="outline colour does not show the orientation", impl=ec))
        if any_unbounded and ax.get_facecolor() == bg0:
            fails.append(Fail(kind="O", what="unbounded component without a filled background"))
        # correspondence with the model's path builder (structure and codes)
        mp = ctx.model.plot_shape(before) if case.get("num", "frac") == "frac" else None
        if mp is not None:
            ctx.k_cases += 1
            mpaths = [p for p in mp if p[0] != "background"]
            ok = len(mpaths) == len(patches)
            if ok:
                for pt, mq in zip(patches, mpaths):
                    codes = [int(x) for x in pt.get_path().codes]
                    mcodes = [c for _, c in mq[-1]]
                    mverts = [v for v, _ in mq[-1]]
                    verts = pt.get_path().vertices
                    tol = 2e-6 if mq[0] == "outline" else 1e-12
                    if codes != mcodes or any(abs(float(a[0]) - float(b[0])) > tol or abs(float(a[1]) - float(b[1])) > tol
                                              for a, b in zip(verts, mverts)):
                        ok = False
                    if (mq[0] == "outline") != (pt.get_facecolor()[3] == 0):
                        ok = False
            if ok:
                ctx.k_agreed += 1
            else:
                fails.append(Fail(kind="K", what="patches differ from the model's plot_shape"))
    finally:
        pyplot.close(fig)
    return fails
