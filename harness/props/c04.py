"""C04 -- area and polynomial moments equal the true integrals over the region."""
from fractions import Fraction as F

from .. import gen as G, impl as I, oracle as O, util as U
from ..core import Fail

PID = "C04"
RULE = ("shapes of every kind (triangles, non-convex polygons, holes, several components, unbounded, Empty) with "
        "int/Fraction/float coordinates, plus a curved stream (circles, quadratic and cubic boundaries) x exponent "
        "pairs a+b <= 6 (thorough: <= 10); float polygons with long nearly horizontal / vertical sides (slopes 1e-2..1e-4) and exponents up to 4; observables IntegrateShape.polynomial/area, float(S), "
        "IntegrateJordan.vertical/area; exact polygons are integrated, moved / scaled in place and integrated again; non-trivial = not an axis-parallel rectangle centred at the origin; "
        "distinct = SHA-1 of the case")
PROOF_STATUS = ("Props/C04.v: moment = moment_spec (formal trapezoid integrals) for all polygonal shapes of all kinds, "
                "a+b <= 14; Newton-Cotes exactness up to 19 nodes; area = shoelace; reversal negates; curved segments of degree d: "
                "the rule (max(4+a+b+d, d(a+b+2)) nodes since the repair of F29) is exact for every exponent pair within the 19-node table; "
                "the old node count refuted on a cubic first moment")


def cases(ctx):
    rng = ctx.rng
    n = ctx.n(40, 800)
    maxo = ctx.n(6, 10)
    yield {"shape": ("E",), "a": 0, "b": 0, "num": "frac"}
    for i in range(n):
        den = rng.choice([1, 1, 3, 8])
        if i % 6 == 0:
            s = ("S", G.verts_to_jordan(G.lattice_polygon(rng, n=3, R=9)))
        else:
            s = G.any_shape(rng, R=rng.choice([6, 15]), den=den)
        num = ["frac", "float", "int"][i % 3] if den == 1 else ["frac", "float"][i % 2]
        for _ in range(3):
            a = rng.randint(0, maxo)
            b = rng.randint(0, maxo - a)
            yield {"shape": s, "a": a, "b": b, "num": num}
        yield {"shape": s, "a": 0, "b": 0, "num": num}
    # float polygons with long, nearly (not exactly) horizontal or vertical sides (slopes 1e-2 .. 1e-4, rises far above the
    # tolerances) and higher exponents: where a closed form in dx/dy or dy/dx would cancel
    import math
    for i in range(ctx.n(8, 120)):
        th = rng.choice([0.002, 0.0005, 0.01, 0.0001]) * rng.choice([1, -1])
        w, h = rng.choice([4.0, 7.5, 12.0]), rng.choice([1.0, 2.5])
        cx, cy = rng.choice([0.0, 3.25, -6.5]), rng.choice([0.0, 1.75])
        if i % 2:
            th += math.pi / 2
        c_, s_ = math.cos(th), math.sin(th)
        vs = [(cx + c_ * x - s_ * y, cy + s_ * x + c_ * y) for x, y in ((0.0, 0.0), (w, 0.0), (w, h), (0.0, h))]
        if i % 4 >= 2:          # a "house": one shallow roof edge only
            vs = [(cx, cy), (cx + w, cy), (cx + w, cy + h), (cx, cy + h + w * abs(math.tan(th if i % 2 == 0 else th - math.pi / 2)))]
        j = G.verts_to_jordan([(F(x), F(y)) for x, y in vs])
        for a, b in ((2, 0), (3, 0), (4, 0), (2, 1), (0, 4), (1, 3)):
            yield {"shape": ("S", j), "a": a, "b": b, "num": "float", "shallow": True}
    # curved: exact area of quadratic/cubic boundaries, quadrature accuracy for moments
    for i in range(ctx.n(6, 60)):
        d = 2 + i % 2
        k = rng.randint(3, 5)
        vs = G.ccw(G.star_polygon(rng, n=k, R=8))
        j = []
        for a_, b_ in G.poly_edges(vs):
            mid = [((1 - F(t, d)) * a_[0] + F(t, d) * b_[0] + F(rng.randint(-4, 4), 4),
                    (1 - F(t, d)) * a_[1] + F(t, d) * b_[1] + F(rng.randint(-4, 4), 4)) for t in range(1, d)]
            j.append([a_] + mid + [b_])
        for (a, b) in [(0, 0), (1, 0), (0, 1), (1, 1), (2, 0), (0, 2), (3, 0), (1, 2)]:
            yield {"shape": ("S", j), "a": a, "b": b, "num": "frac", "curved": True}


def nontrivial(case):
    s = case["shape"]
    js = O.shape_jordans(s)
    if not js:
        return False
    if len(js) == 1 and len(js[0]) == 4 and O.is_polygon(js[0]):
        vs = [sg[0] for sg in js[0]]
        xs = sorted({v[0] for v in vs})
        ys = sorted({v[1] for v in vs})
        if len(xs) == 2 and len(ys) == 2 and xs[0] == -xs[1] and ys[0] == -ys[1]:
            return False
    return True


def check(ctx, case):
    fails = []
    s, a, b, num = case["shape"], case["a"], case["b"], case["num"]
    exact = num != "float"
    ctx.count("kind:" + U.shape_kind(s))
    ctx.count("num:" + num)
    ctx.count("order:%d" % (a + b))
    if case.get("shallow"):
        ctx.count("float polygon with a shallow side")
    S = I.mk_shape(s, num)
    sex = s if exact else I.shape_data(S)
    if s[0] == "E":
        ri = I.outcome(lambda: float(S))
        if ri != ("ok", 0.0):
            fails.append(Fail(kind="O", what="float(Empty) != 0", impl=ri))
        return fails
    ri, rounded = I.outcome_r(lambda: I.IntegrateShape.polynomial(S, a, b))
    if ri[0] == "ok":
        ri = ("ok", I.num(ri[1]))
        if exact and not isinstance(I.IntegrateShape.polynomial(S, a, b), (F, int)):
            fails.append(Fail(kind="O", what="rational polygon gives a non-rational moment", impl=repr(type(I.IntegrateShape.polynomial(S, a, b)))))
    curved = case.get("curved")
    spec = O.moment_shape(sex, a, b)        # sweep to the x-axis, formal integration: independent formula
    if not curved:
        pm = ctx.model.moment(sex, a, b)
        ctx.k_cases += 1
        if ri[0] == "ok" and U.num_same(ri[1], pm, exact):
            ctx.k_agreed += 1
        else:
            fails.append(Fail(kind="K", what="polynomial(S,a,b) differs from model moment", impl=ri, model=pm))
        if ri[0] != "ok" or not U.num_same(ri[1], spec, exact):
            fails.append(Fail(kind="O", what="polynomial(S,a,b) is not the integral of x^a y^b", impl=ri, expected=spec))
    else:
        # curved: since the repair of F29 the rule has enough nodes for every exponent pair; theorem C04_curved_moments
        # applies whenever the node count max(4+a+b+d, d(a+b+2)) stays within the 19-node table of the proof
        dmax = max(len(sg) - 1 for j in O.shape_jordans(sex) for sg in j)
        covered = max(4 + a + b + dmax, dmax * (a + b + 2)) <= 19
        ctx.count("curved: theorem C04_curved_moments " + ("applies (node count <= 19)" if covered else "does not apply (node count > 19: exact value still required)"))
        tol = 0
        # correspondence: the model integrates curved segments of every degree with the same rule
        pm = ctx.model.moment(sex, a, b)
        ctx.k_cases += 1
        if ri[0] == "ok" and ri[1] == pm:
            ctx.k_agreed += 1
        else:
            fails.append(Fail(kind="K", what="curved: polynomial(S,a,b) differs from model moment", impl=ri, model=pm))
        ok = ri[0] == "ok" and (ri[1] == spec if tol == 0 else abs(ri[1] - spec) <= tol * max(abs(spec), 1))
        if not ok:
            fails.append(Fail(kind="O", what="curved: polynomial(S,a,b) off the exact integral", impl=ri, expected=spec))
    if not curved and exact and not fails:
        # the SAME object, integrated, moved / scaled in place, integrated again: the integral of where it is now
        v, k = (F(5), F(-2)), (F(3, 2), F(2))
        for name, act, f in (("move", lambda: S.move(v[0], v[1]), lambda p: (p[0] + v[0], p[1] + v[1])),
                             ("scale", lambda: S.scale(k[0], k[1]), lambda p: (p[0] * k[0], p[1] * k[1]))):
            r = I.outcome(act)
            if r[0] != "ok":
                break
            sex = U.map_shape(sex, f)
            rn = I.outcome(lambda: I.num(I.IntegrateShape.polynomial(S, a, b)))
            want = O.moment_shape(sex, a, b)
            if rn != ("ok", want):
                fails.append(Fail(kind="O", what="after %s() of an object that had been integrated, polynomial(S,a,b) is not the integral over its new place" % name,
                                  impl=rn, expected=want))
                break
        S = I.mk_shape(s, num)
        sex = s
    if a == 0 and b == 0:
        r2 = I.outcome(lambda: I.num(I.IntegrateShape.area(S)))
        r3 = I.outcome(lambda: F(float(S)))
        if r2 != ri and not curved:
            fails.append(Fail(kind="O", what="IntegrateShape.area differs from polynomial(S,0,0)", impl=r2, expected=ri))
        if r3[0] != "ok" or not U.num_close(r3[1], spec, 1e-12, 1e-12):
            fails.append(Fail(kind="O", what="float(S) is not the area", impl=r3, expected=spec))
        # per-curve integrals
        for jd, J in zip(O.shape_jordans(I.shape_data(S)), S.jordans):
            rj = I.outcome(lambda: I.num(I.IntegrateJordan.area(J)))
            ej = O.moment_jordan(jd, 0, 0)
            if rj[0] != "ok" or not U.num_same(rj[1], ej, exact):
                fails.append(Fail(kind="O", what="IntegrateJordan.area is not the enclosed area", impl=rj, expected=ej))
            if not curved:
                mj = ctx.model.jordan_area(jd)
                ctx.k_cases += 1
                if rj[0] == "ok" and U.num_same(rj[1], mj, exact):
                    ctx.k_agreed += 1
                else:
                    fails.append(Fail(kind="K", what="IntegrateJordan.area differs from model", impl=rj, model=mj))
    return fails
