"""C15 -- splitting and cleaning a curve never change the curve."""
from fractions import Fraction as F

from .. import gen as G, impl as I, oracle as O, util as U
from ..core import Fail

PID = "C15"
RULE = ("closed polygonal curves (int/Fraction/float), exact curved curves (Fraction control points, sides of degree 1..3: result against the model, integrals x^a y^b dy unchanged exactly, pieces retrace exactly) and float curved curves (circle arcs, quadratic/cubic pieces) x "
        "multisets of (segment, parameter) pairs: parameters k/100, parameters at / within 1e-6 of 0 and 1, repeated and "
        "nearly equal parameters (0, 1e-17, 1e-12, 5e-7, 1e-5 apart; F15/F15c repaired), repeated split/clean sequences; "
        "a parabola arc, at the origin and up to 300 units away, split at two parameters 0.002..0.05 apart (short pieces get degree-reduced: junctions on the curve within 1e-6, F25 repaired); "
        "observables: vertices, orientation, area, segments[i](t) on a grid, == with the "
        "original after clean; non-trivial = at least one parameter survives the 1e-6 filter; distinct = SHA-1")
PROOF_STATUS = ("Props/C15.v: retrace, junctions at the split parameters, no zero-length piece, area / winding number / "
                "closedness unchanged, split TOTAL on valid requests (repeated and nearly equal parameters merged, used "
                "parameters >= 1e-6 apart), clean idempotent and complete, all for straight segments and rational data; curved "
                "segments of degree <= 6: pieces and cleaned pieces retrace (positions and velocities), every split keeps the "
                "area and every boundary integral the library computes (C15_curved_*); F15, F15c (=F23), F25 repaired")


def _nodes(rng, n, k):
    idx, nodes = [], []
    for _ in range(k):
        idx.append(rng.randrange(n))
        r = rng.random()
        if r < 0.08:
            nodes.append(F(rng.choice([0, 1])))
        elif r < 0.16:
            nodes.append(rng.choice([F(1, 2000000), 1 - F(1, 2000000), F(1, 500000), 1 - F(1, 500000)]))
        else:
            nodes.append(F(rng.randint(1, 99), 100))
    # repeated and nearly equal parameters (the library merges parameters closer than 1e-6 on one segment)
    if idx and rng.random() < 0.3:
        k = rng.randrange(len(idx))
        if F(1, 100) <= nodes[k] <= F(99, 100):
            idx.append(idx[k])
            nodes.append(nodes[k] + rng.choice([F(0), F(1, 10 ** 17), F(1, 2 * 10 ** 6), -F(1, 10 ** 12), F(1, 10 ** 5)]))
    # exact repetitions are passed once
    seen = set()
    out_i, out_n = [], []
    for i, u in zip(idx, nodes):
        if (i, u) in seen:
            continue
        seen.add((i, u))
        out_i.append(i)
        out_n.append(u)
    return out_i, out_n


def cases(ctx):
    rng = ctx.rng
    for i in range(ctx.n(70, 1500)):
        vs = G.star_polygon(rng, R=rng.choice([5, 12]), den=rng.choice([1, 1, 2, 4])) if i % 3 else G.lattice_polygon(rng, R=8)
        idx, nodes = _nodes(rng, len(vs), rng.randint(1, 5))
        twice = i % 5 == 0
        if twice:       # repeated splitting: stay away from the ends (pieces below the tolerances are the class of F15b/F19)
            keep = [(a, u) for a, u in zip(idx, nodes) if F(1, 100) <= u <= F(99, 100)]
            idx, nodes = [a for a, _ in keep], [u for _, u in keep]
        num = "frac"
        if all(x.denominator == 1 for p in vs for x in p) and i % 4 == 1:
            num = "int"
        if i % 4 == 3:
            num = "float"
        yield {"k": "poly", "vs": vs, "idx": idx, "nodes": nodes, "num": num, "twice": twice}
    # curved closed curves with EXACT (Fraction) control points, sides of degree 1..3, cut at rational parameters
    # (several on one segment too): the library's result against the model's, and the conclusion of
    # C15_curved_split_area / C15_curved_split_integrals -- area and every integral x^a y^b dy with a+b <= 3 unchanged
    for i in range(ctx.n(10, 200)):
        k = rng.randint(3, 5)
        vs = G.ccw(G.star_polygon(rng, n=k, R=8))
        j = []
        for a_, b_ in G.poly_edges(vs):
            d = rng.choice([1, 2, 3, 3])
            mid = [((1 - F(t, d)) * a_[0] + F(t, d) * b_[0] + F(rng.randint(-4, 4), 4),
                    (1 - F(t, d)) * a_[1] + F(t, d) * b_[1] + F(rng.randint(-4, 4), 4)) for t in range(1, d)]
            j.append([a_] + mid + [b_])
        nn = rng.randint(1, 4)
        idx = [rng.randrange(k) for _ in range(nn)]
        if nn >= 3:
            idx[1] = idx[0]
            idx[2] = idx[0]
        nodes = [F(rng.randint(2, 18), 20) + F(rng.choice([0, 1, -1]), 60) for _ in range(nn)]
        if len(set(zip(idx, nodes))) == nn:
            yield {"k": "kcurved", "j": j, "idx": idx, "nodes": nodes}
    for i in range(ctx.n(6, 80)):
        yield {"k": "circle", "nd": rng.choice([4, 8, 16]), "r": rng.choice([1.0, 2.5]),
               "idx": [rng.randrange(4) for _ in range(3)], "nodes": [rng.choice([0.25, 0.5, 0.375, 0.7]) for _ in range(3)]}
    # curved pieces short enough to be degree-reduced: the junctions must stay on the curve (F25 repaired)
    for i in range(ctx.n(14, 160)):
        t = rng.choice([0.3, 0.56, 0.71])
        yield {"k": "cap", "a": rng.choice([1.0, 2.0, 3.0]), "h": rng.choice([1.0, 2.0, 4.0]),
               "nodes": [t, t + rng.choice([0.002, 0.005, 0.01, 0.03, 0.05])],
               "at": rng.choice([(0.0, 0.0), (12.0, 9.0), (-20.0, 15.0), (30.5, 40.0), (-300.0, 100.0)])}


def nontrivial(case):
    return any(F(1, 1000000) <= F(u) <= 1 - F(1, 1000000) for u in case["nodes"])


def check(ctx, case):
    fails = []
    ctx.count("kind:" + case["k"])
    if case["k"] == "cap":
        a, h = case["a"], case["h"]
        ox, oy = case.get("at", (0.0, 0.0))          # the same arc anywhere in the plane
        J = I.JordanCurve.from_ctrlpoints([[(-a + ox, oy), (a + ox, oy)], [(a + ox, oy), (ox, 2 * h + oy), (-a + ox, oy)]])
        r = I.outcome(lambda: J.split([1, 1], list(case["nodes"])))
        if r[0] != "ok":
            return [Fail(kind="O", what="split raised on a parabola arc", impl=r)]
        arc = lambda t: (a * (1 - 2 * t) + ox, h * (1 - (1 - 2 * t) ** 2) + oy)
        segs = J.segments
        if len(segs) != 4:
            return [Fail(kind="O", what="two interior parameters must give three pieces", impl=len(segs))]
        for k, t in enumerate(case["nodes"]):
            q = segs[1 + k].ctrlpoints[-1]
            want = arc(t)
            if abs(float(q[0]) - want[0]) > 1e-6 * max(1.0, abs(ox)) or abs(float(q[1]) - want[1]) > 1e-6 * max(1.0, abs(oy)):
                fails.append(Fail(kind="O", what="junction of curved pieces is not on the original curve at the split parameter (1e-6)",
                                  impl=[float(q[0]), float(q[1])], expected=list(want)))
            if segs[1 + k].ctrlpoints[-1] is not segs[2 + k].ctrlpoints[0]:
                fails.append(Fail(kind="O", what="junction not shared after curved split", i=k))
        for sg in segs[1:]:
            # a piece the library degree-reduced may leave the curve by what its tolerance (squared L2 error 1e-9)
            # permits: the chord of such a piece is at most 1.1e-4 away; other pieces stay on the curve (1e-6)
            lim = 2e-4 if sg.degree == 1 else 1e-6 * max(1.0, abs(ox), abs(oy))
            for x in (0.0, 0.5, 1.0):
                q = sg(x)
                if abs(float(q[1]) - oy - h * (1 - ((float(q[0]) - ox) / a) ** 2)) > lim:
                    fails.append(Fail(kind="O", what="piece leaves the parabola", impl=[float(q[0]), float(q[1])]))
        ctx.count("cap:reduced" if any(sg.degree == 1 for sg in segs[1:]) else "cap:kept")
        return fails
    if case["k"] == "kcurved":
        j, idx, nodes = case["j"], case["idx"], case["nodes"]
        J = I.mk_jordan(j, "frac")
        ints = ((1, 0), (2, 0), (1, 1), (0, 3), (3, 0), (1, 2))
        before = [I.num(I.IntegrateJordan.vertical(J, ex, ey)) for ex, ey in ints]
        r0 = I.ROUNDINGS[0]
        ri = I.outcome(lambda: (J.split(list(idx), list(nodes)), I.jordan_data(J))[1])
        rm = ctx.model.split(j, idx, nodes)
        ctx.count("exact curved split: %d cut(s), degrees %s" % (len(idx), "".join(sorted({str(len(sg) - 1) for sg in j}))))
        if I.ROUNDINGS[0] != r0:
            ctx.set_aside += 1
            return fails
        if ri[0] != "ok":
            fails.append(Fail(kind="O", what="split raised on a valid request (exact curved curve)", impl=ri))
            return fails
        after = [I.num(I.IntegrateJordan.vertical(J, ex, ey)) for ex, ey in ints]
        if rm[0] == "ok" and len(rm[1]) == len(ri[1]) and [len(sg) for sg in rm[1]] != [len(sg) for sg in ri[1]]:
            # the library degree-reduced a piece by least squares within its 1e-9 tolerance although the piece is not
            # EXACTLY reducible (the property allows it; the model's clean reduces exact cases only): outside the exact
            # model, judged at the property's tolerance
            ctx.count("exact curved split: a piece degree-reduced within 1e-9 (allowed; outside the exact model)")
            ctx.set_aside += 1
            if any(abs(x - y) > F(1, 10 ** 4) * max(1, abs(x)) for x, y in zip(before, after)):
                fails.append(Fail(kind="O", what="split with an inexact degree reduction changed a boundary integral by more than 1e-4 relative",
                                  impl=[str(x) for x in after], expected=[str(x) for x in before]))
            return fails
        ctx.k_cases += 1
        if ri == rm:
            ctx.k_agreed += 1
        else:
            fails.append(Fail(kind="K", what="split of an exact curved curve differs from the model's", impl=str(ri)[:300], model=str(rm)[:300]))
        if before != after:
            fails.append(Fail(kind="O", what="split changed the area or a boundary integral x^a y^b dy of an exact curved curve "
                              "(conclusion of C15_curved_split_integrals)", impl=[str(x) for x in after], expected=[str(x) for x in before]))
        segs = J.segments
        for i_, sg in enumerate(segs):
            if sg.ctrlpoints[-1] is not segs[(i_ + 1) % len(segs)].ctrlpoints[0]:
                fails.append(Fail(kind="O", what="junction not shared after curved split", i=i_))
        # every piece retraces its part of the original segment (positions at three parameters, exact)
        orig = I.mk_jordan(j, "frac")
        cuts = {}
        for a_, u_ in zip(idx, nodes):
            cuts.setdefault(a_, []).append(u_)
        pos = 0
        for a_, sg0 in enumerate(orig.segments):
            ts = [F(0)] + sorted(cuts.get(a_, [])) + [F(1)]
            for t0, t1 in zip(ts, ts[1:]):
                piece = segs[pos]
                pos += 1
                for x in (F(0), F(1, 3), F(1)):
                    p_, q_ = piece(x), sg0(t0 + x * (t1 - t0))
                    if (F(p_[0]), F(p_[1])) != (F(q_[0]), F(q_[1])):
                        fails.append(Fail(kind="O", what="piece does not retrace its part of the curved segment (exact)", seg=a_, t0=t0, t1=t1))
                        break
        return fails
    if case["k"] == "circle":
        S = I.Primitive.circle(case["r"], (0, 0), case["nd"])
        J = S.jordans[0]
        J0 = I.JordanCurve.from_ctrlpoints([[tuple(p) for p in s.ctrlpoints] for s in J.segments])
        a0 = float(I.IntegrateJordan.area(J))
        pairs = sorted(set(zip(case["idx"], case["nodes"])))
        r = I.outcome(lambda: J.split([p[0] for p in pairs], [p[1] for p in pairs]))
        if r[0] != "ok":
            return [Fail(kind="O", what="split raised on a circle", impl=r)]
        a1 = float(I.IntegrateJordan.area(J))
        if abs(a1 - a0) > 1e-6 * max(1, abs(a0)) or (float(J) > 0) != (a0 > 0):
            fails.append(Fail(kind="O", what="curved split changed area/orientation", impl=a1, expected=a0))
        segs = J.segments
        for i, sg in enumerate(segs):
            if sg.ctrlpoints[-1] is not segs[(i + 1) % len(segs)].ctrlpoints[0]:
                fails.append(Fail(kind="O", what="junction not shared after curved split", i=i))
            e = sg(1.0)
            n = segs[(i + 1) % len(segs)](0.0)
            if abs(float(e[0]) - float(n[0])) > 1e-6 or abs(float(e[1]) - float(n[1])) > 1e-6:
                fails.append(Fail(kind="O", what="pieces do not join", i=i))
            # each piece lies on the original circle band
            for t in (0.0, 0.5, 1.0):
                q = sg(t)
                d = (float(q[0]) ** 2 + float(q[1]) ** 2) ** 0.5
                if abs(d - case["r"]) > 0.07 * case["r"] * (16 / case["nd"]) ** 2 + 1e-6:
                    fails.append(Fail(kind="O", what="piece leaves the original curve", i=i, t=t, impl=d))
        reduced = any(sg.degree != 2 for sg in J.segments)
        nseg0 = len(J0.segments)
        rc = I.outcome(lambda: bool(J.clean() == J0))
        if reduced:
            ctx.count("circle:piece-degree-reduced")    # the property excuses these
        elif rc != ("ok", True) or len(J.segments) != nseg0:
            fails.append(Fail(kind="O", what="curved split then clean does not give back a curve == the original with the original segmentation",
                              impl=[rc, len(J.segments)], expected=[("ok", True), nseg0]))
        r2 = I.outcome(lambda: bool(J0 == J))
        if not reduced and r2 != ("ok", True):
            fails.append(Fail(kind="O", what="original == cleaned split curve is not True", impl=r2))
        return fails
    vs, idx, nodes, num = case["vs"], case["idx"], case["nodes"], case["num"]
    exact = num != "float"
    ctx.count("num:" + num)
    j0 = G.verts_to_jordan(vs)
    J = I.mk_jordan(j0, num)
    jx = j0 if exact else I.jordan_data(J)
    nn = nodes if exact else [float(u) for u in nodes]
    r0 = I.ROUNDINGS[0]
    ri = I.outcome(lambda: (J.split(list(idx), list(nn)), I.jordan_data(J))[1])
    rm = ctx.model.split(jx, idx, [F(u) for u in nn])
    ctx.k_cases += 1
    if I.ROUNDINGS[0] != r0:
        ctx.set_aside += 1
        exact = False
    if U.res_same(ri, rm, lambda a, b: U.jordan_same(a, b, exact, rotate=False)):
        ctx.k_agreed += 1
    else:
        fails.append(Fail(kind="K", what="split result differs from model", impl=ri, model=rm))
    if ri[0] != "ok":
        fails.append(Fail(kind="O", what="split raised on valid distinct parameters", impl=ri))
        return fails
    j1 = ri[1]
    # the property: same orientation, area, point set; junctions at the parameters; no zero-length piece
    a0, a1 = O.moment_jordan(jx, 0, 0), O.moment_jordan(j1, 0, 0)
    if not U.num_same(a0, a1, exact):
        fails.append(Fail(kind="O", what="split changed the enclosed area", impl=a1, expected=a0))
    for k, sg in enumerate(j1):
        if sg[0] == sg[-1]:
            fails.append(Fail(kind="O", what="zero-length piece", k=k))
        if sg[-1] != j1[(k + 1) % len(j1)][0]:
            fails.append(Fail(kind="O", what="pieces do not chain", k=k))
    segs = J.segments
    for k in range(len(segs)):
        if segs[k].ctrlpoints[-1] is not segs[(k + 1) % len(segs)].ctrlpoints[0]:
            fails.append(Fail(kind="O", what="junction point not shared by identity", k=k))
    want = []
    for i, sg in enumerate(jx):
        us = []
        for u in sorted({F(u) for ii, u in zip(idx, nn) if ii == i and not (abs(F(u)) < F(1, 1000000) or abs(F(u) - 1) < F(1, 1000000))}):
            if not us or u - us[-1] >= F(1, 1000000):       # parameters within 1e-6 of the previous one are merged
                us.append(u)
        ts = [F(0)] + us + [F(1)]
        for t0, t1 in zip(ts, ts[1:]):
            want.append([O.bez(sg, t0), O.bez(sg, t1)])
    if len(want) != len(j1) or not all(U.seg_same(a, b, exact) for a, b in zip(want, j1)):
        fails.append(Fail(kind="O", what="pieces are not the sub-segments at the split parameters", impl=j1, expected=want))
    if case.get("twice"):
        r2 = I.outcome(lambda: (J.split(list(idx), list(nn)), I.jordan_data(J))[1])
        if r2[0] == "ok" and not U.num_same(O.moment_jordan(r2[1], 0, 0), a0, exact):
            fails.append(Fail(kind="O", what="second split changed the area"))
    # clean gives back the original segmentation and is idempotent
    rc = I.outcome(lambda: I.jordan_data(J.clean()))
    mc = ctx.model.clean(j1) if exact and not case.get("twice") else None
    if mc is not None:
        ctx.k_cases += 1
        if U.res_same(rc, mc, lambda a, b: U.jordan_same(a, b, True, rotate=False)):
            ctx.k_agreed += 1
        else:
            fails.append(Fail(kind="K", what="clean result differs from model", impl=rc, model=mc))
    if rc[0] != "ok":
        fails.append(Fail(kind="O", what="clean raised", impl=rc))
    else:
        if not U.jordan_same(rc[1], jx, exact, rotate=True):
            fails.append(Fail(kind="O", what="split then clean does not give back the original segmentation", impl=rc[1], expected=jx))
        rc2 = I.outcome(lambda: I.jordan_data(J.clean()))
        if rc2 != rc:
            fails.append(Fail(kind="O", what="clean is not idempotent", impl=rc2, expected=rc))
        req = I.outcome(lambda: bool(J == I.mk_jordan(j0, num)))
        if req != ("ok", True):
            fails.append(Fail(kind="O", what="curve after split+clean is not == the original", impl=req))
    return fails
