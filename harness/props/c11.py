"""C11 -- a call that raises or is interrupted leaves its operands intact."""
import copy
from fractions import Fraction as F

from .. import gen as G, impl as I, oracle as O, util as U, hist as H, crash as CR, opcases as OC
from ..core import Fail

PID = "C11"
RULE = ("non-mutating operations (| & - ^ ~, `in` for points / curves / shapes incl. Connected-in-Simple, ==, float, "
        "IntegrateShape.polynomial, deepcopy) on operands of all kinds: the operation is run once to count its N internal "
        "calls into the package, then re-run from a fresh state with a BaseException raised inside the k-th call, for k "
        "evenly spread over 1..N (quick: <= 40 per case; thorough: <= 160) plus the first call of every distinct internal function; curved operators on operands far from unit size (crash points spread over the crossing search); cheap queries (point / float / in / ==) on cold unbounded or holed operands with EVERY internal call as a crash point; afterwards every operand must denote exactly "
        "the region it denoted before (same kind, same curves up to inserted collinear vertices, same orientation) and "
        "answer area / containment / float(curve) as before; plus the invalid-argument matrix of move/scale/rotate x all "
        "kinds; non-trivial = the crash index is neither the first nor the last call; distinct = SHA-1")
PROOF_STATUS = ("Props/C11.v: every prefix of the write trace of every operator (also a failing one) leaves every "
                "pre-existing curve's winding numbers, area, point set intact; rejected transformations write nothing")

OPS = ["|", "&", "-", "^", "in", "==", "poly", "copy", "not", "jin"]


def cases(ctx):
    rng = ctx.rng
    big = ("S", G.verts_to_jordan(G.ccw([(F(-5), F(-5)), (F(5), F(-5)), (F(5), F(5)), (F(-5), F(5))])))
    hollow = ("C", [G.verts_to_jordan(G.ccw([(F(-2), F(-2)), (F(2), F(-2)), (F(2), F(2)), (F(-2), F(2))])),
                    G.verts_to_jordan(G.cw([(F(-1), F(-1)), (F(1), F(-1)), (F(1), F(1)), (F(-1), F(1))]))])
    yield {"a": big, "b": hollow, "op": "in"}          # Connected-in-Simple: the repaired inversion window (F4)
    yield {"a": hollow, "b": big, "op": "in"}
    for i in range(ctx.n(10, 120)):
        op = OPS[i % len(OPS)]
        kinds = ("S", "S", "C", "U", "D") if (ctx.thorough() or op not in "^-") else ("S", "S", "U", "C")
        env = OC.gen_env(rng, 2, R=rng.choice([5, 8]), kinds=kinds)
        if env is None:
            continue
        yield {"a": env[0], "b": env[1], "op": OPS[i % len(OPS)]}
    # cheap queries on cold objects with clockwise curves (unbounded shapes, holes): EVERY internal call is a crash point
    for i in range(ctx.n(8, 48)):
        env = OC.gen_env(rng, 2, R=rng.choice([5, 8]), kinds=("U", "C", "U", "D"))
        if env is not None:
            yield {"a": env[0], "b": env[1], "op": ["pt", "jfloat", "in", "=="][i % 4], "all_points": True}
    # curved operands far from unit size (a circle of radius 0.02 / 20 against a square): crash points spread over the
    # (long) crossing search
    for i in range(ctx.n(3, 18)):
        yield {"curvedop": [0.02, 20.0, 0.003, 150.0][i % 4], "nd": rng.choice([4, 8]), "op": "&|-"[i % 3]}
    kinds = [G.simple_shape(rng, R=6, bounded=True), G.holed_shape(rng, R=8), G.disjoint_shape(rng, R=6)]
    bads = [("move", ("1", "2")), ("move", (None, 1)), ("move", ([1], 2)), ("scale", (2, "3")), ("scale", ("2", 3)),
            ("scale", (None, 1)), ("scale", (2, [1])), ("scale", ("a", 1)), ("rot", ("1",)), ("rot", (None,)), ("rot", ([1],)),
            ("rot", ("abc",)), ("scale", (2,)), ("move", ())]
    for s in kinds:
        for b in bads:
            yield {"shape": s, "bad": b}


def nontrivial(case):
    return "op" in case


def _curved_state(S, r):
    b = S.box()
    pts = [(0.0, 0.0), (0.5 * r, 0.2 * r), (1.2 * r, 0.3 * r), (3 * r, 3 * r), (0.99 * r * 0.7, 0.99 * r * 0.7)]
    return {"area": float(S), "box": [float(b.lowpt[0]), float(b.lowpt[1]), float(b.toppt[0]), float(b.toppt[1])],
            "mem": [bool(S.contains_point(p, True)) for p in pts], "signs": [float(j) > 0 for j in S.jordans]}


def _curved_close(a, b, r):
    # the in-place split of a curved boundary may move it within the library's own tolerance (C15: 1e-6)
    return (abs(a["area"] - b["area"]) <= 1e-6 * 6.3 * r + 1e-12 and a["mem"] == b["mem"] and a["signs"] == b["signs"]
            and all(abs(x - y) <= 1e-6 * max(1.0, r) for x, y in zip(a["box"], b["box"])))


def _curvedop(ctx, case):
    fails = []
    r, nd, op = case["curvedop"], case["nd"], case["op"]
    mk = lambda: (I.Primitive.circle(r, (0.0, 0.0), nd), I.Primitive.square(1.7 * r, (0.8 * r, 0.3 * r)))
    f = lambda A, B: {"&": lambda: A & B, "|": lambda: A | B, "-": lambda: A - B}[op]
    A, B = mk()
    ref = (_curved_state(A, r), _curved_state(B, r))
    base = I.outcome(lambda: CR.count_calls(f(A, B)))
    ctx.count("curved op:" + op)
    if base[0] != "ok":
        return [Fail(kind="O", what="curved operator raised", impl=base)]
    N = base[1]
    npts = ctx.n(14, 60)
    for k in sorted(set(1 + (N - 1) * i // npts for i in range(npts + 1))):
        A, B = mk()
        res = CR.run_with_fault(f(A, B), k)
        ctx.count("injected" if res[0] == "injected" else "completed")
        for name, X, want in (("first", A, ref[0]), ("second", B, ref[1])):
            got = I.outcome(lambda: _curved_state(X, r))
            if got[0] != "ok" or not _curved_close(got[1], want, r):
                return [Fail(kind="O", what="%s operand of a curved %s changed by a call interrupted at internal call %d of %d (%s)" % (name, op, k, N, res[-1]),
                             impl=str(got)[:300], expected=str(want)[:300])]
    return fails


def _op(case, A, B):
    op = case["op"]
    if op in "|&-^":
        return {"|": lambda: A | B, "&": lambda: A & B, "-": lambda: A - B, "^": lambda: A ^ B}[op]
    if op == "in":
        return lambda: B in A
    if op == "jin":
        return lambda: B.jordans[0] in A if hasattr(B, "jordans") else None
    if op == "==":
        return lambda: A == B
    if op == "poly":
        return lambda: (I.IntegrateShape.polynomial(A, 1, 1), float(B), [float(j) for j in B.jordans])
    if op == "copy":
        return lambda: (copy.deepcopy(A), copy.copy(B))
    if op == "not":
        return lambda: (~A, -B)
    if op == "pt":
        return lambda: ((F(1, 2), F(1, 3)) in A, B.contains_point((3, -2), False))
    if op == "jfloat":
        return lambda: ([float(j) for j in getattr(A, "jordans", ())], float(B))
    raise ValueError(op)


def _answers(S):
    if isinstance(S, (I.EmptyShape, I.WholeShape)):
        return type(S).__name__
    return {"area": I.num(I.IntegrateShape.area(S)), "signs": [float(j) > 0 for j in S.jordans],
            "mem": [bool(S.contains_point(p, True)) for p in ((0, 0), (F(1, 2), F(1, 3)), (3, -2), (40, 40))]}


def check(ctx, case):
    fails = []
    if "bad" in case:
        s, (k, args) = case["shape"], case["bad"]
        S = I.mk_shape(s)
        before = I.shape_data(S)
        ctx.count("bad:" + k)
        r = I.outcome(lambda: {"move": S.move, "scale": S.scale, "rot": S.rotate}[k](*args))
        if r[0] == "ok":
            fails.append(Fail(kind="O", what="invalid arguments accepted by %s" % k, args=repr(args)))
        if I.shape_data(S) != before:
            fails.append(Fail(kind="O", what="%s%r raised but changed the shape" % (k, args), impl=r))
        return fails
    if "curvedop" in case:
        return _curvedop(ctx, case)
    a, b, op = case["a"], case["b"], case["op"]
    ctx.count("op:" + op)
    A, B = I.mk_shape(a), I.mk_shape(b)
    base = I.outcome(lambda: CR.count_calls(_op(case, A, B), names=True))
    if base[0] != "ok":
        # the operation itself raises: the operands must be intact all the same
        A, B = I.mk_shape(a), I.mk_shape(b)
        try:
            _op(case, A, B)()
        except Exception:
            pass
        for name, X, d in (("first", A, a), ("second", B, b)):
            if not H.resplit_of(I.shape_data(I.mk_shape(d)), I.shape_data(X)):
                fails.append(Fail(kind="O", what="operation raised and left its %s operand changed" % name, impl=base))
        return fails
    N, names = base[1]
    ctx.count("calls", N)
    budget = ctx.n(24, 160)
    # crash points: evenly spread over the run, plus the first / middle / last call of EVERY distinct internal function
    ks = sorted(set([1, 2, N - 1, N] + [1 + (N - 1) * i // budget for i in range(budget + 1)] + CR.site_points(names, 1)))
    if case.get("all_points") and N <= ctx.n(400, 800):
        ks = list(range(1, N + 1))
    ks = [k for k in ks if 1 <= k <= N]
    ctx.count("crash points", len(ks))
    ctx.count("distinct internal functions", len(set(names)))
    ref = {"a": I.shape_data(I.mk_shape(a)), "b": I.shape_data(I.mk_shape(b))}
    ans = {"a": _answers(I.mk_shape(a)), "b": _answers(I.mk_shape(b))}
    for k in ks:
        A, B = I.mk_shape(a), I.mk_shape(b)
        r = CR.run_with_fault(_op(case, A, B), k)
        ctx.count("injected" if r[0] == "injected" else "completed")
        if r[0] == "other":
            ctx.count("other-exception")
        for name, X in (("a", A), ("b", B)):
            now = I.shape_data(X)
            if not H.resplit_of(ref[name], now):
                fails.append(Fail(kind="O", what="operand %s changed by a call interrupted at internal call %d of %d (%s)" % (name, k, N, r[-1]),
                                  op=op, impl=str(now)[:300], expected=str(ref[name])[:300]))
                return fails
            got = I.outcome(lambda: _answers(X))
            if got != ("ok", ans[name]):
                fails.append(Fail(kind="O", what="operand %s answers differently after an interrupted call (k=%d of %d, %s)" % (name, k, N, r[-1]),
                                  op=op, impl=str(got)[:300], expected=str(ans[name])[:300]))
                return fails
    # correspondence with the heap model: after the completed operation the operands are re-split as MH says
    if op in "|&-^":
        hist = [("new", ref["a"], "frac"), ("new", ref["b"], "frac"), ("bin", op, 0, 1)]
        env = H.impl_run(hist)
        rm = H.model_run(ctx.model, hist)
        ctx.k_cases += 1
        if rm[0] == "ok" and not H.compare(env, rm[1]) and rm[1].wf:
            ctx.k_agreed += 1
        elif OC.env_general_position([a, b]):
            fails.append(Fail(kind="K", what="heap model differs after the completed operator", model=str(rm[:1])))
    return fails
