"""C19 -- directly constructed composite shapes equal the ones operators build."""
import itertools
from fractions import Fraction as F

from .. import gen as G, impl as I, oracle as O, util as U, opcases as OC
from ..core import Fail

PID = "C19"
RULE = ("valid member lists: one outer polygon with 1-3 holes (ConnectedShape of the outer simple shape and the complements "
        "of the holes), 2-4 pairwise disjoint components some with holes (DisjointShape), unbounded members, Empty "
        "entries, single-member and empty lists; float components whose areas do not add up exactly (== and float(S) across orders); ALL permutations of lists with <= 4 members; compared with the "
        "operator results (outer - hole1 - hole2, c1 | c2 | c3): kind, curves, area, moments of order <= 2, containment "
        "on slab samples, complement (representation and membership against the oracle); non-trivial = at least 2 members; distinct = SHA-1")
PROOF_STATUS = ("Props/C19.v: containment, region, area, moments are invariant under permutation of the list; the sort is a "
                "permutation; canonical stored order for distinct keys; collapse rules")


def cases(ctx):
    rng = ctx.rng
    for i in range(ctx.n(18, 300)):
        h = G.holed_shape(rng, R=rng.choice([10, 16]), den=rng.choice([1, 2]), nholes=rng.choice([1, 2, 2, 3]))
        if h[0] == "C":
            yield {"k": "connected", "curves": h[1], "num": "frac" if i % 3 else "int"}
    for i in range(ctx.n(6, 120)):
        u = G.unbounded_connected(rng, R=rng.choice([8, 14]), den=rng.choice([1, 2]))
        if u[0] == "C":
            yield {"k": "connected", "curves": u[1], "num": "frac", "unbounded": True}
    for i in range(ctx.n(14, 250)):
        d = G.disjoint_shape(rng, R=rng.choice([8, 14]), den=rng.choice([1, 2]), ncomp=rng.choice([2, 3, 3, 4]))
        if d[0] == "D":
            yield {"k": "disjoint", "comps": d[1], "empties": i % 3, "num": "frac"}
    # NESTED components: a ring with further components (islands, rings with islands) inside its hole
    for i in range(ctx.n(6, 100)):
        a, b = OC.nested_env(rng)
        if a[0] == "D":
            a, b = b, a
        comps = [a] + (list(b[1]) if b[0] == "D" else [b])
        if all(c[0] in "SC" for c in comps):
            yield {"k": "disjoint", "comps": comps, "empties": 0, "num": "frac", "nested": True}
    # float data whose component areas do not add up exactly (0.1 + 0.2 + 0.3): the stored order must be canonical
    for i in range(ctx.n(6, 100)):
        d = G.disjoint_shape(rng, R=rng.choice([8, 14]), den=1, ncomp=rng.choice([3, 3, 4]))
        if d[0] == "D":
            d = U.map_shape(d, lambda p: (p[0] / 10, p[1] / 10))
            yield {"k": "disjoint", "comps": d[1], "empties": 0, "num": "float"}
    sq = ("S", G.verts_to_jordan(G.ccw([(F(0), F(0)), (F(3), F(0)), (F(3), F(3)), (F(0), F(3))])))
    yield {"k": "single", "comp": sq}
    yield {"k": "none", "empties": 0}
    yield {"k": "none", "empties": 2}


def nontrivial(case):
    return case["k"] in ("connected", "disjoint")


def _obs(S, pts):
    if isinstance(S, (I.EmptyShape, I.WholeShape)):
        return {"data": I.shape_data(S)}
    return {"data": I.shape_data(S), "area": I.num(I.IntegrateShape.area(S)),
            "moms": [I.num(I.IntegrateShape.polynomial(S, a, b)) for a, b in ((1, 0), (0, 1), (2, 0), (1, 1), (0, 2))],
            "mem": [bool(S.contains_point(p, True)) for p in pts],
            "notmem": (lambda N: [bool(N.contains_point(p, True)) for p in pts])(~S),
            "not": I.shape_data(~S)}


def _same_obs(o1, o2):
    return (U.shape_same(o1["data"], o2["data"]) and o1.get("area") == o2.get("area") and o1.get("moms") == o2.get("moms")
            and o1.get("mem") == o2.get("mem") and ("not" not in o1 or U.shape_same(o1["not"], o2["not"])))


def check(ctx, case):
    fails = []
    k = case["k"]
    ctx.count("kind:" + k)
    E_ = I.EmptyShape()
    if k == "none":
        r = I.outcome(lambda: I.DisjointShape([E_] * case["empties"]))
        if r[0] != "ok" or r[1] is not E_:
            fails.append(Fail(kind="O", what="DisjointShape of no shapes / only Empty is not Empty", impl=r[0]))
        return fails
    if k == "single":
        S0 = I.mk_shape(case["comp"])
        r = I.outcome(lambda: I.DisjointShape([S0]))
        if r[0] != "ok" or r[1] is S0 or not U.shape_same(I.shape_data(r[1]), case["comp"]):
            fails.append(Fail(kind="O", what="DisjointShape([S]) is not a copy of S", impl=r[0]))
        else:
            r[1].move(1, 1)
            if not U.shape_same(I.shape_data(S0), case["comp"]):
                fails.append(Fail(kind="O", what="DisjointShape([S]) shares state with S"))
        return fails
    num = case["num"]
    if k == "connected":
        curves = case["curves"]
        members = [("S", j) for j in curves]          # outer (ccw) and complements of holes (cw)
        pts = O.slab_samples(curves) + [(F(1000), F(777)), (F(-10 ** 6), F(1, 3))]
        build = lambda order: I.ConnectedShape([I.mk_shape(members[i], num) for i in order])
        outer = curves[0]
        def via_ops():
            if case.get("unbounded"):        # the plane minus the polygons
                R = I.WholeShape()
                for hj in curves:
                    R = R - I.mk_shape(("S", U.reverse_jordan(hj)), num)
                return R
            R = I.mk_shape(("S", outer), num)
            for hj in curves[1:]:
                R = R - I.mk_shape(("S", U.reverse_jordan(hj)), num)
            return R
        def via_and():
            R = I.mk_shape(members[0], num)
            for m_ in members[1:]:
                R = R & I.mk_shape(m_, num)
            return R
        n = len(members)
        model_shape = ("C", curves)
    else:
        comps = case["comps"]
        members = list(comps)
        pts = O.slab_samples([j for c in comps for j in O.shape_jordans(c)])
        ne = case.get("empties", 0)
        build = lambda order: I.DisjointShape([I.mk_shape(members[i], num) for i in order] + [E_] * ne)
        def via_ops():
            R = I.mk_shape(members[0], num)
            for c in members[1:]:
                R = R | I.mk_shape(c, num)
            return R
        via_and = None
        n = len(members)
        model_shape = ("D", comps)
    orders = list(itertools.permutations(range(n))) if n <= 4 else [tuple(range(n))]
    if not ctx.thorough():
        orders = orders[:: max(1, len(orders) // 6)]
    ref = None
    for order in orders:
        r = I.outcome(lambda: build(order))
        if r[0] != "ok":
            fails.append(Fail(kind="O", what="constructor raised on a valid list", order=list(order), impl=r))
            continue
        o = _obs(r[1], pts)
        if ref is None:
            ref = o
        elif not _same_obs(ref, o):
            fails.append(Fail(kind="O", what="result depends on the order of the list", order=list(order)))
        elif num == "float":
            req = I.outcome(lambda: (bool(build(order) == build(orders[0])), float(build(order)) == float(build(orders[0]))))
            if req != ("ok", (True, True)):
                fails.append(Fail(kind="O", what="two orders of the same list are not == / differ in float(S)", order=list(order), impl=req))
    if ref is None:
        return fails
    for name, f in (("operators", via_ops), ("&", via_and)):
        if f is None:
            continue
        r = I.outcome(f)
        if r[0] != "ok":
            fails.append(Fail(kind="O", what="operator construction raised (%s)" % name, impl=r))
            continue
        o = _obs(r[1], pts)
        if not _same_obs(ref, o):
            fails.append(Fail(kind="O", what="directly constructed shape differs from the %s result" % name,
                              impl=str(ref["data"])[:300], expected=str(o["data"])[:300]))
        req = I.outcome(lambda: bool(build(orders[0]) == r[1]))
        if req != ("ok", True):
            fails.append(Fail(kind="O", what="directly constructed shape is not == the %s result" % name, impl=req))
    # the region is the intersection / union of the members (oracle) and the model agrees
    for p, got in zip(pts, ref["mem"]):
        rr = O.region(model_shape, p)
        if rr in ("in", "out") and got != (rr == "in"):
            fails.append(Fail(kind="O", what="membership of the composite is not the intersection/union of its members", p=p))
            break
    # ... and its complement is the complement of that region
    for p, got in zip(pts, ref["notmem"]):
        rr = O.region(model_shape, p)
        if rr in ("in", "out") and got != (rr == "out"):
            fails.append(Fail(kind="O", what="the complement of the composite is not the complement of the union/intersection of its members", p=p))
            break
    if num == "float":
        return fails            # the exact model does not apply to float sums
    ctx.k_cases += 1
    am = ctx.model.shape_area(model_shape)
    mm = [ctx.model.moment(model_shape, a, b) for a, b in ((1, 0), (0, 1), (2, 0), (1, 1), (0, 2))]
    if am == ref["area"] and mm == ref["moms"] and [ctx.model.contains_point(model_shape, p, True) for p in pts] == ref["mem"]:
        ctx.k_agreed += 1
    else:
        fails.append(Fail(kind="K", what="area/moments/membership differ from model", impl=[ref["area"], ref["moms"]], model=[am, mm]))
    return fails
