"""C10 -- answers depend only on the current geometry, not on earlier calls."""
import copy
import json
import os
import subprocess
import sys
from fractions import Fraction as F

from .. import gen as G, impl as I, oracle as O, util as U, hist as H, ser
from ..core import Fail

PID = "C10"
RULE = ("histories of constructions, in-place transformations, operators (general-position operands, which get split in "
        "place) and queries; then a battery of queries -- float(S), moments of order <= 2, float(curve) (cached signed length) of every curve, "
        "box, containment of fixed points, S == deepcopy(S), S op T for a third shape T, T in S -- asked of the LIVE object "
        "of a deep copy built just before and of an object rebuilt from the current coordinates alone, and the same operator evaluated before and after the others on the same "
        "operands; a sample of histories is re-executed in a second process with another PYTHONHASHSEED and cold module "
        "caches; warm object / copy / one of the two transformed / the other asked; shapes of different segment degrees (square, circle, cubic blob, triangle) queried in different orders, "
        "each order in its own cold process, and in the warm checking process; non-trivial = the history contains an operator or scale/rotate before the queries; distinct = SHA-1")
PROOF_STATUS = ("Props/C10.v: cache coherence + identity structure are invariants of every operation; a containment query on "
                "the live object equals the value model on the current geometry in every reachable state; stale-cache "
                "refutation of the unrepaired code")


def cases(ctx):
    rng = ctx.rng
    # regression witness of the repaired defect F2 (stale cached length after scale)
    sq = ("S", G.verts_to_jordan(G.ccw([(F(-1, 2), F(-1, 2)), (F(1, 2), F(-1, 2)), (F(1, 2), F(1, 2)), (F(-1, 2), F(1, 2))])))
    yield {"hist": [("new", sq, "frac"), ("float", 0), ("scale", 0, (F(2), F(2)))], "probe": 0}
    yield {"hist": [("new", sq, "frac"), ("float", 0), ("rot", 0, (F(3, 5), F(4, 5))), ("scale", 0, (F(3), F(1, 2)))], "probe": 0}
    for i in range(ctx.n(20, 500)):
        h = H.gen_history(rng, rng.randint(2, 7), nvars0=2, R=rng.choice([6, 10]),
                          weights={"bin": 4, "copy": 1, "not": 1, "move": 2, "scale": 3, "rot": 1, "contains": 2, "float": 3},
                          signed_scale=True)
        probe = rng.randrange(2)
        # systematically: warm the per-curve cache, then transform in place, then ask (cache invalidation)
        env = H.impl_run(h)
        if not isinstance(env[probe], (I.EmptyShape, I.WholeShape)):
            tr = [("scale", probe, (F(-1), F(-1))), ("scale", probe, (F(-3), F(-3))), ("scale", probe, (F(2), F(2))),
                  ("scale", probe, (F(1, 2), F(3))), ("rot", probe, (F(3, 5), F(4, 5))), ("rot", probe, (F(-1), F(0))),
                  ("move", probe, (F(7), F(-2))), ("scale", probe, (F(-1, 2), F(-2)))][i % 8]
            warm = [("float", probe), ("contains", probe, (F(0), F(0)), True), ("poly", probe)][i % 3]
            h = h + [warm, tr]
            if i % 3 == 2:
                # warm object, a copy of it, the COPY (or the original) transformed, then the other one is asked
                nv = len(env)
                mv = ("move", nv, (F(10), F(-3))) if i % 2 else ("scale", nv, (F(3), F(2)))
                h = h + [("contains", probe, (F(1), F(1)), True), ("copy", probe), mv]
                if i % 4 == 0:
                    h = h + [("move", probe, (F(-7), F(5)))]
                    probe = nv
        yield {"hist": h, "probe": probe, "proc": i % 6 == 0}
    for i in range(ctx.n(6, 150)):
        from .. import opcases as OC
        env = OC.gen_env(rng, 2, R=rng.choice([6, 10]))
        if env:
            yield {"order": env, "ops": rng.sample(list("|&-^"), 3)}
    # evaluation order across objects of different kinds (segment degrees 1, 2, 3): every order in its own cold process
    for i in range(ctx.n(2, 24)):
        specs = [["square", rng.choice([2, 3])], ["circle", rng.choice([1, 2]), rng.choice([4, 8])],
                 ["cubic", rng.choice([1, 2])], ["polygon", [[rng.randint(-4, 4), rng.randint(-4, 4)] for _ in range(3)]]]
        specs = [sp for sp in specs if sp[0] != "polygon" or G.is_simple_polygon([(F(a), F(b)) for a, b in sp[1]])]
        order = list(range(len(specs)))
        rng.shuffle(order)
        yield {"mixed": specs, "perm": order}


def nontrivial(case):
    if "order" in case or "mixed" in case:
        return True
    return any(op[0] in ("bin", "scale", "rot") for op in case["hist"])


def _battery(S, T):
    """answers of S to a fixed list of queries (as plain comparable data)"""
    out = {}
    if isinstance(S, (I.EmptyShape, I.WholeShape)):
        return {"kind": type(S).__name__}
    out["area"] = float(S)
    out["moms"] = [float(I.IntegrateShape.polynomial(S, a, b)) for a, b in ((1, 0), (0, 1), (1, 1), (2, 0), (0, 2))]
    out["lengths"] = [float(j) for j in S.jordans]
    b = S.box()
    out["box"] = [float(b.lowpt[0]), float(b.lowpt[1]), float(b.toppt[0]), float(b.toppt[1])]
    pts = [(0, 0), (1, 1), (-3, 2), (F(7, 2), F(-5, 3)), (10, 10)]
    # boundary probes chosen independently of the order of the curves: the lexicographically smallest vertex
    # and the midpoint of the edge that starts there
    best = None
    for j in S.jordans:
        vs = j.vertices
        for i, v in enumerate(vs):
            key = (float(v[0]), float(v[1]))
            if best is None or key < best[0]:
                w = vs[(i + 1) % len(vs)]
                best = (key, tuple(v), ((v[0] + w[0]) / 2, (v[1] + w[1]) / 2))
    pts += [best[1], best[2]]
    out["lengths"] = sorted(out["lengths"])
    out["mem"] = [[bool(S.contains_point(p, True)), bool(S.contains_point(p, False))] for p in pts]
    out["selfeq"] = I.outcome(lambda: bool(S == copy.deepcopy(S)))
    out["T in S"] = I.outcome(lambda: bool(T in S))
    out["S|T"] = I.outcome(lambda: float(S | T))
    out["S&T"] = I.outcome(lambda: float(S & T))
    return out


def _mixed_shape(sp):
    if sp[0] == "square":
        return I.Primitive.square(sp[1])
    if sp[0] == "circle":
        return I.Primitive.circle(sp[1], (0, 0), sp[2])
    if sp[0] == "cubic":
        k = sp[1]
        return I.SimpleShape(I.JordanCurve.from_ctrlpoints([[(k, 0), (k, k), (0, k), (-k, 0)], [(-k, 0), (-k, -k), (0, -k), (k, 0)]]))
    return I.Primitive.polygon([tuple(p) for p in sp[1]])


def mixed_answers(specs, perm):
    """answers of every shape to the point queries and integrals, the shapes being queried in the order perm"""
    shapes = [_mixed_shape(sp) for sp in specs]
    pts = [(x / 4.0, y / 4.0) for x in range(-9, 10, 2) for y in range(-9, 10, 3)] + [(0.636, 0.636), (1.3, 1.3), (0.9, 0.2)]
    out = {}
    for i in perm:
        S = shapes[i]
        out[str(i)] = {"mem": [[bool(S.contains_point(p, True)), bool(S.contains_point(p, False))] for p in pts],
                       "area": float(S), "len": [float(j) for j in S.jordans],
                       "ixx": float(I.IntegrateShape.polynomial(S, 2, 0)) if hasattr(I, "IntegrateShape") else 0.0}
    return out


def _subprocess(payload):
    env2 = dict(os.environ, PYTHONHASHSEED="4242")
    p = subprocess.run([sys.executable, "-W", "ignore", "-m", "harness.props.c10"], input=json.dumps(payload), capture_output=True,
                       text=True, env=env2, timeout=600, cwd=os.path.dirname(os.path.dirname(os.path.dirname(os.path.abspath(__file__)))))
    return json.loads(p.stdout.strip().split("\n")[-1]), p.stderr[-300:]


def _close(a, b):
    if isinstance(a, float) and isinstance(b, float):
        return a == b or abs(a - b) <= 1e-9 * max(1.0, abs(a), abs(b))
    if isinstance(a, (list, tuple)) and isinstance(b, (list, tuple)):
        return len(a) == len(b) and all(_close(x, y) for x, y in zip(a, b))
    if isinstance(a, dict) and isinstance(b, dict):
        return a.keys() == b.keys() and all(_close(a[k], b[k]) for k in a)
    return a == b


def run_history_answers(hist, probe):
    env = H.impl_run(hist)
    T = I.Primitive.polygon([(F(-2), F(-3)), (F(9, 2), F(-1)), (F(1), F(11, 2))])
    S = env[probe]
    fresh = copy.deepcopy(S)
    T2, T3 = copy.deepcopy(T), copy.deepcopy(T)       # before any battery: the operators split T in place
    # a third object built from nothing but the current coordinates (no cache can have survived)
    isfloat = any(isinstance(x, float) for j in getattr(S, "jordans", ()) for sg in j.segments for p in sg.ctrlpoints for x in (p[0], p[1]))
    rebuilt = I.mk_shape(I.shape_data(S), "float" if isfloat else "frac")
    return _battery(S, T), _battery(fresh, T2), _battery(rebuilt, T3)


def check(ctx, case):
    fails = []
    if "order" in case:
        a, b = case["order"]
        ops = case["ops"]
        f = {"|": lambda A, B: A | B, "&": lambda A, B: A & B, "-": lambda A, B: A - B, "^": lambda A, B: A ^ B}
        A, B = I.mk_shape(a), I.mk_shape(b)
        live = []
        for op in ops:
            live.append(I.outcome(lambda: I.shape_data(f[op](A, B))))
        for op, r in zip(ops, live):
            fr = I.outcome(lambda: I.shape_data(f[op](I.mk_shape(a), I.mk_shape(b))))
            ctx.count("order:" + op)
            same = r[0] == fr[0] and (r[0] != "ok" or (r[1][0] == fr[1][0] and _region_same(r[1], fr[1], a, b)))
            if not same:
                fails.append(Fail(kind="O", what="A %s B after other operators on the same operands differs from fresh operands" % op,
                                  impl=str(r)[:300], expected=str(fr)[:300]))
        # the same two objects again after ONE of them was moved / scaled in place (still crossing or not: whatever the
        # new position gives): the operators must see the new geometry
        from .. import opcases as OC
        for name, act, g in (("move", lambda: A.move(F(1, 3), F(-1, 4)), lambda p: (p[0] + F(1, 3), p[1] - F(1, 4))),
                             ("scale", lambda: B.scale(F(5, 4), F(3, 4)), lambda p: (p[0] * F(5, 4), p[1] * F(3, 4)))):
            if fails:
                break
            if I.outcome(act)[0] != "ok":
                break
            if name == "move":
                a = U.map_shape(a, g)
            else:
                b = U.map_shape(b, g)
            if not OC.env_general_position([a, b]):
                break
            for op in ops[:2]:
                r = I.outcome(lambda: I.shape_data(f[op](A, B)))
                fr = I.outcome(lambda: I.shape_data(f[op](I.mk_shape(a), I.mk_shape(b))))
                ctx.count("order-after-%s:%s" % (name, op))
                same = r[0] == fr[0] and (r[0] != "ok" or (r[1][0] == fr[1][0] and _region_same(r[1], fr[1], a, b)))
                if not same:
                    fails.append(Fail(kind="O", what="A %s B on the same objects after an in-place %s of one of them differs from fresh operands at the new place" % (op, name),
                                      impl=str(r)[:300], expected=str(fr)[:300]))
                    break
        return fails
    if "mixed" in case:
        specs, perm = case["mixed"], list(case["perm"])
        ctx.count("mixed-degree evaluation orders")
        try:
            a, _ = _subprocess({"mixed": specs, "perm": perm})
            b, _ = _subprocess({"mixed": specs, "perm": perm[::-1]})
            c, _ = _subprocess({"mixed": specs, "perm": sorted(perm)})
        except Exception as exc:
            return [Fail(kind="O", what="cold process failed: %r" % (exc,))]
        for other, name in ((b, "reversed"), (c, "sorted")):
            if not _close(a, other):
                bad = [k for k in a if not _close(a[k], other.get(k))]
                fails.append(Fail(kind="O", what="answers of shape(s) %s depend on which other objects were queried before (%s order)" % (bad, name)))
        # and here, in this long-lived process
        mine = json.loads(json.dumps(mixed_answers(specs, perm)))
        if not _close(mine, a):
            fails.append(Fail(kind="O", what="answers in this (warm) process differ from a cold process"))
        return fails
    hist, probe = case["hist"], case["probe"]
    for op in hist:
        ctx.count("op:" + op[0])
    r = I.outcome(lambda: run_history_answers(hist, probe))
    if r[0] != "ok":
        return [Fail(kind="O", what="history / battery raised", impl=r)]
    live, fresh, rebuilt = r[1]
    if not _close(live, fresh):
        bad = [k for k in live if not _close(live[k], fresh.get(k))]
        fails.append(Fail(kind="O", what="live object answers differently from its deep copy: %s" % bad,
                          impl={k: str(live[k])[:200] for k in bad}, expected={k: str(fresh.get(k))[:200] for k in bad}))
    if not _close(live, rebuilt):
        bad = [k for k in live if not _close(live[k], rebuilt.get(k))]
        fails.append(Fail(kind="O", what="live object answers differently from an object rebuilt from its current coordinates: %s" % bad,
                          impl={k: str(live[k])[:200] for k in bad}, expected={k: str(rebuilt.get(k))[:200] for k in bad}))
    # asking twice gives the same answers
    r2 = I.outcome(lambda: run_history_answers(hist, probe))
    if r2[0] != "ok" or not _close(r2[1][0], live):
        fails.append(Fail(kind="O", what="repeating the same computation gives another result"))
    # the cached signed length against the geometry (oracle): |float(j)| = length, sign = orientation
    env = H.impl_run(hist)
    S = env[probe]
    for j in getattr(S, "jordans", ()):
        jd = I.jordan_data(j)
        if O.is_polygon(jd):
            import math
            L = sum(math.hypot(float(b[0] - a[0]), float(b[1] - a[1])) for a, b in O.edges_of(jd))
            sgn = 1 if O.moment_jordan(jd, 0, 0) > 0 else -1
            if abs(float(j) - sgn * L) > 1e-9 * max(1.0, L):
                fails.append(Fail(kind="O", what="float(curve) is not the current signed length", impl=float(j), expected=sgn * L))
    # model MH: cache-aware containment equals the live answers
    if H.is_exact_history(hist) and not isinstance(S, (I.EmptyShape, I.WholeShape)):
        for p in ((F(0), F(0)), (F(1), F(1)), (F(7, 2), F(-5, 3))):
            for b in (True, False):
                rm = H.model_contains(ctx.model, hist, probe, p, b)
                ctx.k_cases += 1
                if rm == ("ok", bool(S.contains_point(p, b))):
                    ctx.k_agreed += 1
                else:
                    fails.append(Fail(kind="K", what="heap model containment differs", p=p, model=rm))
        fm = H.model_floats(ctx.model, hist, probe)
        ctx.k_cases += 1
        if fm[0] == "ok" and [pos for pos, _ in fm[1]] == [float(j) > 0 for j in S.jordans]:
            ctx.k_agreed += 1
        else:
            fails.append(Fail(kind="K", what="heap model cached orientation differs", model=str(fm)[:200]))
    # second process, other hash seed, cold caches
    if case.get("proc"):
        payload = json.dumps(ser.to_j({"hist": hist, "probe": probe}))
        env2 = dict(os.environ, PYTHONHASHSEED="4242")
        p = subprocess.run([sys.executable, "-W", "ignore", "-m", "harness.props.c10"], input=payload, capture_output=True,
                           text=True, env=env2, timeout=600, cwd=os.path.dirname(os.path.dirname(os.path.dirname(os.path.abspath(__file__)))))
        ctx.count("second-process")
        try:
            other = json.loads(p.stdout.strip().split("\n")[-1])
        except Exception:
            fails.append(Fail(kind="O", what="second process failed", err=p.stderr[-300:]))
            return fails
        mine = json.loads(json.dumps(_plain(live)))
        if not _close(mine, other):
            fails.append(Fail(kind="O", what="a new process (other PYTHONHASHSEED) gives another result"))
    return fails


def _region_same(d1, d2, a, b):
    pts = O.slab_samples(O.shape_jordans(a) + O.shape_jordans(b))
    return all(O.region(d1, p) == O.region(d2, p) or "bdry" in (O.region(d1, p), O.region(d2, p)) for p in pts)


def _plain(x):
    if isinstance(x, dict):
        return {k: _plain(v) for k, v in x.items()}
    if isinstance(x, (list, tuple)):
        return [_plain(v) for v in x]
    if isinstance(x, F):
        return float(x)
    return x


if __name__ == "__main__":
    raw = json.loads(sys.stdin.read())
    if "mixed" in raw:
        print(json.dumps(mixed_answers(raw["mixed"], raw["perm"])))
        sys.exit(0)
    c = ser.from_j(raw)
    hist = [tuple(op) for op in c["hist"]]
    hist = [tuple(tuple(x) if isinstance(x, list) and op[0] != "new" else x for x in op) for op in hist]
    live = run_history_answers(hist, c["probe"])[0]
    print(json.dumps(_plain(live)))
