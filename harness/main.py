import argparse
import importlib
import os
import sys

from . import core


def main():
    ap = argparse.ArgumentParser()
    ap.add_argument("pid")
    ap.add_argument("--tier", default=os.environ.get("VERIF_TIER", "quick"))
    ap.add_argument("--replay", default=None)
    ap.add_argument("--seed", type=int, default=int(os.environ.get("VERIF_SEED", "0") or 0))
    a = ap.parse_args()
    tier = a.tier if a.tier in ("quick", "thorough") else "quick"
    mod = importlib.import_module("harness.props." + a.pid.lower())
    sys.exit(core.run_property(mod, tier, a.seed, a.replay))


if __name__ == "__main__":
    main()
