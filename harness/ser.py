"""JSON (de)serialisation of plain case data: Fractions as 'n/d' strings, tuples as lists."""
import hashlib
import json
from fractions import Fraction


def to_j(x):
    if isinstance(x, Fraction):
        return "%d/%d" % (x.numerator, x.denominator)
    if isinstance(x, (list, tuple)):
        return [to_j(y) for y in x]
    if isinstance(x, dict):
        return {k: to_j(v) for k, v in x.items()}
    if isinstance(x, float):
        return {"float": x.hex()}
    return x


def from_j(x):
    if isinstance(x, str) and "/" in x and x.replace("/", "").replace("-", "").isdigit():
        n, d = x.split("/")
        return Fraction(int(n), int(d))
    if isinstance(x, list):
        return [from_j(y) for y in x]
    if isinstance(x, dict):
        if set(x) == {"float"}:
            return float.fromhex(x["float"])
        return {k: from_j(v) for k, v in x.items()}
    return x


def tup(x):
    """lists -> tuples for shape tags: ('S', jordan) etc. are accessed by index so lists work too"""
    return x


def case_hash(case):
    return hashlib.sha1(json.dumps(to_j(case), sort_keys=True).encode()).hexdigest()[:16]
