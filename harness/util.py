"""Shared helpers of the property modules: numeric comparison, canonical forms, timeouts."""
import signal
from fractions import Fraction as F

from . import oracle as O


class Timeout(Exception):
    pass


class time_limit:
    """with time_limit(s): ...  raises Timeout in the main thread after s seconds"""

    def __init__(self, seconds):
        self.seconds = seconds

    def _h(self, *a):
        raise Timeout()

    def __enter__(self):
        self.old = signal.signal(signal.SIGALRM, self._h)
        signal.alarm(int(self.seconds))

    def __exit__(self, *a):
        signal.alarm(0)
        signal.signal(signal.SIGALRM, self.old)
        return False


def is_exact(x):
    return isinstance(x, (int, F)) and not isinstance(x, bool)


def num_close(a, b, rel=1e-9, abs_=1e-12):
    """a, b exact rationals (Fractions): equal within a float band"""
    a, b = F(a), F(b)
    if a == b:
        return True
    return abs(a - b) <= max(F(abs_), F(rel) * max(abs(a), abs(b)))


def num_same(a, b, exact):
    return F(a) == F(b) if exact else num_close(a, b)


def pt_same(p, q, exact):
    return num_same(p[0], q[0], exact) and num_same(p[1], q[1], exact)


def seg_same(s, t, exact):
    return len(s) == len(t) and all(pt_same(p, q, exact) for p, q in zip(s, t))


def jordan_same(j, k, exact, rotate=True):
    """same segment list, up to cyclic rotation of the segment list if rotate"""
    if len(j) != len(k):
        return False
    n = len(j)
    if n == 0:
        return True
    for r in (range(n) if rotate else [0]):
        if all(seg_same(j[(i + r) % n], k[i], exact) for i in range(n)):
            return True
    return False


def _match_lists(xs, ys, same):
    """xs and ys equal as multisets under the relation same (greedy matching)"""
    if len(xs) != len(ys):
        return False
    ys = list(ys)
    for x in xs:
        for i, y in enumerate(ys):
            if same(x, y):
                ys.pop(i)
                break
        else:
            return False
    return True


def comp_same(c, d, exact):
    if c[0] != d[0]:
        return False
    if c[0] == "S":
        return jordan_same(c[1], d[1], exact)
    return _match_lists(c[1], d[1], lambda a, b: jordan_same(a, b, exact))


def shape_same(s, t, exact=True):
    """structural equality of plain shape data up to: rotation of each curve's segment list,
    order of holes, order of components"""
    if s[0] != t[0]:
        return False
    if s[0] in "EW":
        return True
    if s[0] == "D":
        return _match_lists(s[1], t[1], lambda a, b: comp_same(a, b, exact))
    return comp_same(s, t, exact)


def drop_collinear_jordan(j, tol=1e-9):
    """polygonal curve without the vertices that lie (within tol, relative) inside the straight line between their
    neighbours -- float data only: whether clean() removes such a vertex depends on roundings"""
    if not all(len(s) == 2 for s in j) or len(j) <= 3:
        return j
    vs = [s[0] for s in j]
    changed = True
    while changed and len(vs) > 3:
        changed = False
        for i in range(len(vs)):
            a, b, c = vs[i - 1], vs[i], vs[(i + 1) % len(vs)]
            ux, uy, vx, vy = b[0] - a[0], b[1] - a[1], c[0] - b[0], c[1] - b[1]
            cr = ux * vy - uy * vx
            dot = ux * vx + uy * vy
            scale = max(1, abs(ux), abs(uy), abs(vx), abs(vy))
            if abs(cr) <= tol * scale * scale and dot > 0:
                vs.pop(i)
                changed = True
                break
    return [[vs[i], vs[(i + 1) % len(vs)]] for i in range(len(vs))]


def drop_collinear(s, tol=1e-9):
    return map_shape_jordans(s, lambda j: drop_collinear_jordan(j, tol))


def map_shape_jordans(s, f):
    if s[0] in "EW":
        return s
    if s[0] == "S":
        return ("S", f(s[1]))
    if s[0] == "C":
        return ("C", [f(j) for j in s[1]])
    return ("D", [map_shape_jordans(c, f) for c in s[1]])


def res_same(ri, rm, same):
    """outcomes ('ok', v) / ('err', kind) / ('nofuel',)"""
    if ri[0] != rm[0]:
        return False
    if ri[0] == "ok":
        return same(ri[1], rm[1])
    if ri[0] == "err":
        return ri[1] == rm[1]
    return True


def tofrac(x):
    if isinstance(x, F):
        return x
    if isinstance(x, int):
        return F(x)
    return F(float(x))


def frac_pt(p):
    return (tofrac(p[0]), tofrac(p[1]))


def translate_shape(s, v):
    return map_shape(s, lambda p: (p[0] + v[0], p[1] + v[1]))


def map_jordan(j, f):
    return [[f(p) for p in s] for s in j]


def map_comp(c, f):
    if c[0] == "S":
        return ("S", map_jordan(c[1], f))
    return ("C", [map_jordan(j, f) for j in c[1]])


def map_shape(s, f):
    if s[0] in "EW":
        return s
    if s[0] == "D":
        return ("D", [map_comp(c, f) for c in s[1]])
    return map_comp(s, f)


def reverse_jordan(j):
    return [list(reversed(s)) for s in reversed(j)]


def shape_kind(s):
    return {"E": "Empty", "W": "Whole", "S": "Simple", "C": "Connected", "D": "Disjoint"}[s[0]]


def brief(x, n=600):
    s = repr(x)
    return s if len(s) <= n else s[:n] + "..."
