"""Operator cases shared by C01 / C05 / C06 / C12: environments of shapes in general position,
operator expressions over them, and the exact set-theoretic oracle."""
from fractions import Fraction as F

from . import gen as G, impl as I, oracle as O, util as U

OPS2 = "|&-^"


def env_general_position(env):
    js = [O.shape_jordans(s) for s in env]
    for i in range(len(js)):
        for k in range(i + 1, len(js)):
            if not G.general_position(js[i], js[k]):
                return False
    return True


def gen_env(rng, n, R=10, den=1, kinds=("S", "S", "S", "C", "D", "U"), tries=300):
    for _ in range(tries):
        env = [G.any_shape(rng, R, den, kinds) for _ in range(n)]
        if env_general_position(env):
            return env
    return None


def ring(rng, center, vs, ro, ri):
    """region between the polygon vs (star-shaped about the origin) scaled by ro and by ri < ro, moved to center"""
    sc = lambda k: [(center[0] + k * p[0], center[1] + k * p[1]) for p in vs]
    return ("C", [G.verts_to_jordan(G.ccw(sc(ro))), G.verts_to_jordan(G.cw(sc(ri)))])


def nested_env(rng, nlevels=None):
    """deeply nested operands: rings inside the holes of rings, islands inside holes (3-5 levels of nesting)"""
    radii = sorted(rng.sample([1, 2, 3, 4, 5, 6, 7, 8, 9, 10], nlevels or rng.choice([3, 4, 4, 5])), reverse=True)
    for _ in range(200):
        vs = G.star_polygon(rng, n=rng.randint(3, 6), R=4, center=(0, 0), rmin=0.6)
        # the scaled copies must be strictly nested: the origin strictly inside and the polygon star-shaped about it
        sc = lambda k: [(k * p[0], k * p[1]) for p in vs]
        if G.point_strictly_inside(vs, (F(0), F(0))) and all(G.poly_inside_poly(sc(a), sc(b)) for a, b in zip(radii[1:], radii)):
            break
    else:
        vs = [(F(2), F(-1)), (F(1), F(2)), (F(-2), F(1)), (F(-1), F(-2))]
    c = (F(rng.randint(-5, 5)), F(rng.randint(-5, 5)))
    a = ring(rng, c, vs, radii[0], radii[1])
    if len(radii) >= 4:
        b = ring(rng, c, vs, radii[2], radii[3])
    else:
        b = ("S", G.verts_to_jordan(G.ccw([(c[0] + radii[2] * p[0], c[1] + radii[2] * p[1]) for p in vs])))
    if len(radii) == 5:
        island = ("S", G.verts_to_jordan(G.ccw([(c[0] + radii[4] * p[0], c[1] + radii[4] * p[1]) for p in vs])))
        b = ("D", [b, island])
    return [a, b] if rng.random() < 0.5 else [b, a]


def component_env(rng, R=10):
    """a DisjointShape and a polygon that crosses only one of its components (any of them, not just the largest)"""
    for _ in range(100):
        d = G.disjoint_shape(rng, R=R, ncomp=rng.choice([2, 3]))
        if d[0] != "D":
            continue
        k = rng.randrange(len(d[1]))
        cj = O.shape_jordans(d[1][k])[0]
        v = cj[rng.randrange(len(cj))][0]
        others = [j for i, c in enumerate(d[1]) if i != k for j in O.shape_jordans(c)]
        for _ in range(30):
            b = G.ccw(G.star_polygon(rng, n=rng.randint(3, 5), R=max(2, R // 4), center=(float(v[0]), float(v[1]))))
            bj = G.verts_to_jordan(b)
            env = [d, ("S", bj)]
            if not env_general_position(env) or G.count_crossings([cj], [bj]) < 2:
                continue
            if any(G.count_crossings([j], [bj]) for j in others):
                continue
            if all(G.polys_disjoint(G.jordan_verts(j), b) for j in others):
                return env if rng.random() < 0.5 else env[::-1]
    return None


def crossing_count(env):
    js = [O.shape_jordans(s) for s in env]
    n = 0
    for i in range(len(js)):
        for k in range(i + 1, len(js)):
            n += G.count_crossings(js[i], js[k])
    return n


def expr_vars(e):
    if e[0] == "var":
        return [e[1]]
    out = []
    for a in e[1:]:
        out += expr_vars(a)
    return out


def linear(e):
    """every variable occurs at most once"""
    v = expr_vars(e)
    return len(v) == len(set(v))


def linear_expr(rng, vs):
    """random expression in which every variable of vs occurs exactly once"""
    if len(vs) == 1:
        e = ("var", vs[0])
    else:
        k = rng.randint(1, len(vs) - 1)
        e = (rng.choice(["|", "&", "-", "^", "|", "&", "-", "+", "*"]), linear_expr(rng, vs[:k]), linear_expr(rng, vs[k:]))
    if rng.random() < 0.12:
        e = (rng.choice(["~", "neg"]), e)
    return e


def sem(e, vals):
    op = e[0]
    if op == "var":
        return vals[e[1]]
    if op in ("~", "neg"):
        return not sem(e[1], vals)
    a, b = sem(e[1], vals), sem(e[2], vals)
    return {"|": a or b, "+": a or b, "&": a and b, "*": a and b, "-": a and not b, "^": a != b}[op]


def gen_cases(ctx, nsingle, nnested, R=10, float_stream=True):
    """yields dict cases: env, expr, num"""
    rng = ctx.rng
    # singletons and trivial operands
    sq = ("S", G.verts_to_jordan(G.ccw([(F(0), F(0)), (F(3), F(0)), (F(3), F(3)), (F(0), F(3))])))
    for a, b in ((("E",), sq), (sq, ("E",)), (("W",), sq), (sq, ("W",)), (("E",), ("W",)), (("W",), ("W",)), (("E",), ("E",))):
        for op in OPS2:
            yield {"env": [a, b], "expr": (op, ("var", 0), ("var", 1)), "num": "frac"}
    yield {"env": [("E",)], "expr": ("~", ("var", 0)), "num": "frac"}
    yield {"env": [("W",)], "expr": ("neg", ("var", 0)), "num": "frac"}
    for i in range(nsingle):
        den = rng.choice([1, 1, 1, 2, 4])
        env = gen_env(rng, 2, R=rng.choice([6, 10, 16]), den=den)
        if env is None:
            continue
        ops = list(OPS2) + ["+", "*"]
        op = ops[i % len(ops)]
        num = "frac"
        if den == 1 and i % 4 == 1:
            num = "int"
        if float_stream and i % 4 == 3 and op in "|&-":
            num = "float"
        case = {"env": env, "expr": (op, ("var", 0), ("var", 1)), "num": num}
        if num == "frac" and i % 4 == 2:
            case["hist"] = i // 4
        yield case
        if i % 7 == 0:
            yield {"env": env[:1], "expr": (rng.choice(["~", "neg"]), ("var", 0)), "num": num if num != "float" else "frac"}
    for i in range(max(3, nsingle // 10)):
        env = nested_env(rng, nlevels=[4, 5, 3][i % 3])
        for op in OPS2:
            yield {"env": env, "expr": (op, ("var", 0), ("var", 1)), "num": "frac"}
    for i in range(max(3, nsingle // 8)):
        env = component_env(rng, R=rng.choice([8, 12]))
        if env is not None:
            for op in OPS2:
                yield {"env": env, "expr": (op, ("var", 0), ("var", 1)), "num": "frac"}
    for i in range(nnested):
        nv = rng.choice([2, 3, 3])
        env = gen_env(rng, nv, R=rng.choice([6, 10]), den=rng.choice([1, 1, 2]), kinds=("S", "S", "S", "C", "U", "D"))
        if env is None:
            continue
        if i % 5 == 4:
            e = G.random_expr(rng, nv, rng.choice([2, 2, 3]))       # may repeat a variable (shared boundaries)
        else:
            vs = list(range(nv))
            rng.shuffle(vs)
            e = linear_expr(rng, vs)
        if e[0] == "var":
            continue
        yield {"env": env, "expr": e, "num": "frac"}


def nontrivial(case):
    env = case["env"]
    if any(s[0] in "EW" for s in env):
        return False
    return crossing_count(env) >= 2 or any(s[0] in "CD" for s in env)


def run_impl(case, timeout=120):
    """fresh objects; ('ok', ShapeObject) | ('err', kind) | ('hang',)   plus the env objects"""
    num = case["num"]
    objs = [I.mk_shape(s, num) for s in case["env"]]
    if case.get("hist") is not None and num == "frac":
        # operands with a history (built elsewhere, questioned, brought into place in place)
        objs = [I.mk_shape_hist(s, case["hist"] + i) for i, s in enumerate(case["env"])]
    try:
        with U.time_limit(timeout):
            out = I.outcome(lambda: I.apply_expr(objs, case["expr"]))
    except U.Timeout:
        return ("hang",), objs
    return out, objs


def env_exact(case, objs):
    """exact data of the operands as the implementation holds them (float inputs: the floats' exact values)"""
    if case["num"] == "float":
        return [I.shape_data(I.mk_shape(s, "float")) for s in case["env"]]
    return case["env"]


def sample_points(envd, margin_float=None):
    js = []
    for s in envd:
        js += O.shape_jordans(s)
    pts = O.slab_samples(js) if js else [(F(0), F(0)), (F(5), F(7))]
    if margin_float is not None:
        # keep points farther than margin from every edge (float data: decisions near edges are tolerance matters)
        keep = []
        for p in pts:
            ok = True
            for j in js:
                for a, b in O.edges_of(j):
                    if dist2_point_seg(p, a, b) < margin_float * margin_float:
                        ok = False
                        break
                if not ok:
                    break
            if ok:
                keep.append(p)
        pts = keep
    return pts


def dist2_point_seg(p, a, b):
    dx, dy = b[0] - a[0], b[1] - a[1]
    l2 = dx * dx + dy * dy
    if l2 == 0:
        return (p[0] - a[0]) ** 2 + (p[1] - a[1]) ** 2
    t = ((p[0] - a[0]) * dx + (p[1] - a[1]) * dy) / l2
    t = max(F(0), min(F(1), t))
    qx, qy = a[0] + t * dx, a[1] + t * dy
    return (p[0] - qx) ** 2 + (p[1] - qy) ** 2


def pointwise_wrong(envd, expr, resd, pts):
    """sample points (off all operand boundaries) where the result region differs from the set-theoretic truth"""
    wrong = []
    for p in pts:
        regs = [O.region(s, p) for s in envd]
        if any(r in ("bdry", "undef") for r in regs):
            continue
        truth = sem(expr, [r == "in" for r in regs])
        rr = O.region(resd, p)
        if rr == "bdry":
            continue        # on the result's boundary (possible only on operand boundaries; skipped above) -- defensive
        if rr == "undef" or (rr == "in") != truth:
            wrong.append((p, truth, rr))
    return wrong


# ---------------- operands that share a COMPLETE boundary curve (subtract twice, add back, ...) ----------------
LAWS = {
    "(O-K)-K": (lambda A, K: A - K, lambda a, k: a and not k),
    "(O-K)|K": (lambda A, K: A | K, lambda a, k: a or k),
    "(O-K)&K": (lambda A, K: A & K, lambda a, k: a and k),
    "(O-K)|~K": (lambda A, K: A | ~K, lambda a, k: a or not k),
    "(O-K)&~K": (lambda A, K: A & ~K, lambda a, k: a and not k),
    "(O-K)^K": (lambda A, K: A ^ K, lambda a, k: a != k),
    "K-(O-K)": (lambda A, K: K - A, lambda a, k: k and not a),
    "~K-(O-K)": (lambda A, K: (~K) - A, lambda a, k: (not k) and not a),
}


def law_cases(rng, n):
    """a polygon O with 1-2 polygonal holes, A = O minus the holes (built by the operators), K = the first hole as a
    shape: A and K share one complete boundary curve and nothing else"""
    names = sorted(LAWS)
    for i in range(n):
        h = G.holed_shape(rng, R=rng.choice([10, 14]), den=rng.choice([1, 2]), nholes=rng.choice([1, 2]))
        if h[0] == "C":
            yield {"holed": h, "law": names[i % len(names)], "num": "frac" if i % 3 else "int"}


def law_run(case):
    """-> outcome of the expression, the data of A and K, the truth function"""
    h, num = case["holed"], case["num"]
    Ks = [("S", U.reverse_jordan(j)) for j in h[1][1:]]
    def build():
        A = I.mk_shape(("S", h[1][0]), num)
        for k in Ks:
            A = A - I.mk_shape(k, num)
        return LAWS[case["law"]][0](A, I.mk_shape(Ks[0], num))
    return I.outcome(build), h, Ks[0], LAWS[case["law"]][1]


def law_wrong_points(case, resd):
    h = case["holed"]
    K = ("S", U.reverse_jordan(h[1][1]))
    truth = LAWS[case["law"]][1]
    wrong = []
    for p in O.slab_samples(h[1]):
        ia, ik = O.region(h, p), O.region(K, p)
        if "bdry" in (ia, ik):
            continue
        rr = O.region(resd, p)
        if rr == "bdry":
            continue
        if rr == "undef" or (rr == "in") != truth(ia == "in", ik == "in"):
            wrong.append(p)
    return wrong
