"""Exception injection at internal call boundaries of shapepy (harness side, no source hooks):
a trace function counts 'call' events of code objects defined under the package directory and
raises Injected from inside the k-th one."""
import os
import sys

from . import impl as I

PKG = os.path.dirname(os.path.realpath(I.shapepy.__file__))


class Injected(BaseException):
    """derives from BaseException like KeyboardInterrupt: not caught by `except Exception`"""


class Counter:
    def __init__(self, fail_at=None):
        self.n = 0
        self.fail_at = fail_at
        self.where = None
        self.names = []            # (file:function) of every counted call, when only counting

    def __call__(self, frame, event, arg):
        if event != "call":
            return None
        co = frame.f_code
        if not co.co_filename.startswith(PKG):
            return None
        self.n += 1
        if self.fail_at is None:
            self.names.append("%s:%s" % (os.path.basename(co.co_filename), co.co_name))
        if self.fail_at is not None and self.n == self.fail_at:
            self.where = "%s:%s" % (os.path.basename(co.co_filename), co.co_name)
            raise Injected(self.where)
        return None


def count_calls(fn, names=False):
    c = Counter()
    old = sys.gettrace()
    sys.settrace(c)
    try:
        fn()
    finally:
        sys.settrace(old)
    return (c.n, c.names) if names else c.n


def site_points(names, per_site=3):
    """call indices (1-based) covering every distinct internal function: its first, middle and last call"""
    where = {}
    for i, nm in enumerate(names):
        where.setdefault(nm, []).append(i + 1)
    ks = set()
    for nm, idx in where.items():
        picks = [idx[0], idx[-1], idx[len(idx) // 2]][:per_site]
        ks.update(picks)
    return sorted(ks)


def run_with_fault(fn, k):
    """-> ('injected', where) | ('completed',) | ('other', exc)"""
    c = Counter(k)
    old = sys.gettrace()
    sys.settrace(c)
    try:
        fn()
    except Injected:
        return ("injected", c.where)
    except BaseException as exc:      # numpy object loops may wrap the injected exception
        if c.where is not None:
            return ("injected", c.where)
        return ("other", repr(exc))
    finally:
        sys.settrace(old)
    return ("completed",)
