"""Exception injection at internal call boundaries of shapepy (harness side, no source hooks):
a trace function counts 'call' events of code objects defined under the package directory and
raises Injected from inside the k-th one."""
import os
import sys

from . import impl as I

PKG = os.path.dirname(os.path.realpath(I.shapepy.__file__))


class Injected(BaseException):
    """derives from BaseException like KeyboardInterrupt: not caught by `except Exception`"""


class Counter:
    def __init__(self, fail_at=None):
        self.n = 0
        self.fail_at = fail_at
        self.where = None

    def __call__(self, frame, event, arg):
        if event != "call":
            return None
        co = frame.f_code
        if not co.co_filename.startswith(PKG):
            return None
        self.n += 1
        if self.fail_at is not None and self.n == self.fail_at:
            self.where = "%s:%s" % (os.path.basename(co.co_filename), co.co_name)
            raise Injected(self.where)
        return None


def count_calls(fn):
    c = Counter()
    old = sys.gettrace()
    sys.settrace(c)
    try:
        fn()
    finally:
        sys.settrace(old)
    return c.n


def run_with_fault(fn, k):
    """-> ('injected', where) | ('completed',) | ('other', exc)"""
    c = Counter(k)
    old = sys.gettrace()
    sys.settrace(c)
    try:
        fn()
    except Injected:
        return ("injected", c.where)
    except BaseException as exc:      # numpy object loops may wrap the injected exception
        if c.where is not None:
            return ("injected", c.where)
        return ("other", repr(exc))
    finally:
        sys.settrace(old)
    return ("completed",)
