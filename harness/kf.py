"""Class predicates of the known findings.  Each is computed from the *input* of a case
(never from the outcome alone) and is deliberately narrow."""

CLASSES = {}


def cls(name):
    def deco(f):
        CLASSES[name] = f
        return f
    return deco


@cls("nongp")
def nongp(case, fail):
    """F16: some operator node gets operands whose boundaries are not in general position: the given
    shapes touch non-transversally (vertex on edge, shared vertex, collinear overlap), or the expression
    uses a variable twice (intermediate results then share boundary pieces)"""
    from . import opcases as OC
    if "env" not in case or "expr" not in case:
        return False
    env = case["env"]
    if case.get("num") == "float":          # the values the library really gets
        from . import impl as I
        env = [I.shape_data(I.mk_shape(s, "float")) for s in env]
    return (not OC.env_general_position(env)) or (not OC.linear(case["expr"]))


@cls("float_encoding")
def float_encoding(case, fail):
    """F9: == compares float areas bit for bit (and points within 1e-9): a float re-encoding of a shape can
    compare unequal to the exact one because the float areas differ in the last bits"""
    return case.get("xn") == "float" or case.get("yn") == "float"


@cls("float_xor")
def float_xor(case, fail):
    """F17: inexact contact -- float data and an operator whose intermediate operands share boundary points
    (^ = (A-B)|(B-A), nested expressions)"""
    def has_xor(e):
        return e[0] == "^" or any(has_xor(a) for a in e[1:] if isinstance(a, (list, tuple)) and a and a[0] != "var")
    e = case.get("expr")
    if case.get("num") != "float" or e is None:
        return False
    depth = lambda x: 0 if x[0] == "var" else 1 + max(depth(a) for a in x[1:])
    return has_xor(e) or depth(e) >= 2


@cls("near_vertex_float")
def near_vertex_float(case, fail):
    """F24: float coordinates and a crossing of the operands' boundaries that the library takes for a contact at a
    vertex (crossing parameter within 1e-6 of an end of either edge -- computed exactly on the values of the floats):
    the path following joins the wrong pieces; the operator raises AssertionError or returns a wrong / self-touching
    region (the class of F16 at the library's tolerance).  A degenerate piece in the result (zero-length or shorter
    than 1e-9), another exception or a hang on such an input is NOT excused."""
    from . import gen as G, impl as I, oracle as O
    if case.get("num") != "float" or "env" not in case:
        return False
    what = str(fail.get("what", ""))
    excused = ("Assertion" in str(fail.get("impl")) or "not the set-theoretic combination" in what
               or "crosses/touches itself" in what or "repeated vertex" in what)
    if not excused or "zero-length" in what or "shorter than" in what:
        return False
    envd = [I.shape_data(I.mk_shape(s, "float")) for s in case["env"]]
    js = [O.shape_jordans(s) for s in envd]
    for i in range(len(js)):
        for k in range(i + 1, len(js)):
            if G.near_vertex_contact(js[i], js[k]):
                return True
    return False


@cls("curved_chord_band")
def curved_chord_band(case, fail):
    """F12 inside an operator (cap-vs-polygon stream): a point the operator classifies against the cap lies between
    the arc and the chords its winding number uses (harness/curved.py: chord_band) -- computed from the input only"""
    if "cap" not in case:
        return False
    from . import curved as C
    return C.chord_band(case)


@cls("graph_cubic")
def graph_cubic(case, fail):
    """F26: `C(t) in segment` misses points of some steep CUBIC graphs (quadratic graphs are complete)"""
    return case.get("k") == "graph" and len(case.get("seg", ())) == 4 and "in segment` is not True" in str(fail.get("what"))


@cls("short_piece")
def short_piece(case, fail):
    """F15b: a split parameter between 1e-6 and 1e-5 from a segment end is kept by the 1e-6 filter and creates a
    piece far below the library's other tolerances; clean() then merges or raises wrongly.  Input predicate only."""
    from fractions import Fraction as F
    if case.get("k") != "poly":
        return False
    lo, hi = F(1, 10 ** 6), F(1, 10 ** 5)
    return any(lo <= F(u) < hi or lo <= 1 - F(u) < hi for u in case.get("nodes", ()))
