"""Class predicates of the known findings.  Each is computed from the *input* of a case
(never from the outcome alone) and is deliberately narrow."""

CLASSES = {}


def cls(name):
    def deco(f):
        CLASSES[name] = f
        return f
    return deco
