"""Class predicates of the known findings.  Each is computed from the *input* of a case
(never from the outcome alone) and is deliberately narrow."""

CLASSES = {}


def cls(name):
    def deco(f):
        CLASSES[name] = f
        return f
    return deco


@cls("nongp")
def nongp(case, fail):
    """F16: some operator node gets operands whose boundaries are not in general position: the given
    shapes touch non-transversally (vertex on edge, shared vertex, collinear overlap), or the expression
    uses a variable twice (intermediate results then share boundary pieces)"""
    from . import opcases as OC
    if "env" not in case or "expr" not in case:
        return False
    return (not OC.env_general_position(case["env"])) or (not OC.linear(case["expr"]))


@cls("float_encoding")
def float_encoding(case, fail):
    """F9: == compares float areas bit for bit (and points within 1e-9): a float re-encoding of a shape can
    compare unequal to the exact one because the float areas differ in the last bits"""
    return case.get("xn") == "float" or case.get("yn") == "float"


@cls("float_xor")
def float_xor(case, fail):
    """F17: inexact contact -- float data and an operator whose intermediate operands share boundary points
    (^ = (A-B)|(B-A), nested expressions)"""
    def has_xor(e):
        return e[0] == "^" or any(has_xor(a) for a in e[1:] if isinstance(a, (list, tuple)) and a and a[0] != "var")
    e = case.get("expr")
    if case.get("num") != "float" or e is None:
        return False
    depth = lambda x: 0 if x[0] == "var" else 1 + max(depth(a) for a in x[1:])
    return has_xor(e) or depth(e) >= 2
