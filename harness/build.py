"""Build of the Coq development, the extracted model and the driver; proof obligations."""
import fcntl
import glob
import json
import os
import re
import subprocess
import time

VERIF = os.path.dirname(os.path.dirname(os.path.abspath(__file__)))
COQ = os.path.join(VERIF, "coq")
BUILD = os.path.join(VERIF, "build")
GATE = re.compile(r"\b(Admitted|admit|Axiom|Axioms|Parameter|Parameters|Conjecture|Hypothesis|Variable|Variables)\b|Unset Guard|bypass_check|type-in-type|impredicative-set|Admit Obligations")


def sh(cmd, cwd=None, timeout=3600):
    p = subprocess.run(cmd, shell=True, cwd=cwd, stdout=subprocess.PIPE, stderr=subprocess.STDOUT,
                       text=True, timeout=timeout)
    return p.returncode, p.stdout


def v_files():
    out = []
    for line in open(os.path.join(COQ, "_CoqProject")):
        line = line.strip()
        if line.endswith(".v"):
            out.append(line)
    return out


def ensure_built(log=None):
    """idempotent, serialised by a lock; returns (ok, message)"""
    os.makedirs(BUILD, exist_ok=True)
    with open(os.path.join(BUILD, ".lock"), "w") as lk:
        fcntl.flock(lk, fcntl.LOCK_EX)
        t0 = time.time()
        mk = os.path.join(COQ, "Makefile")
        if (not os.path.exists(mk)) or os.path.getmtime(mk) < os.path.getmtime(os.path.join(COQ, "_CoqProject")):
            rc, out = sh("coq_makefile -f _CoqProject -o Makefile", cwd=COQ, timeout=120)
            if rc:
                return False, "coq_makefile failed:\n" + out[-2000:]
        rc, out = sh("timeout 7000 make -j16 2>&1", cwd=COQ, timeout=7200)
        out = "\n".join(l for l in out.split("\n") if not re.match(r"^(COQC|COQDEP|CLEAN|Closed under)", l))
        missing = [f for f in v_files() if not os.path.exists(os.path.join(COQ, f[:-2] + ".vo"))]
        if rc or missing:
            return False, "coq build failed (rc %s, missing %s):\n%s" % (rc, missing[:5], out[-3000:])
        # extraction + driver
        drv = os.path.join(BUILD, "mvdriver")
        newest = max(os.path.getmtime(p) for p in glob.glob(os.path.join(COQ, "Model", "*.vo")))
        srcs = [os.path.join(COQ, "Extract.v"), os.path.join(VERIF, "ocaml", "driver.ml")]
        newest = max([newest] + [os.path.getmtime(s) for s in srcs])
        if (not os.path.exists(drv)) or os.path.getmtime(drv) < newest:
            rc, out = sh("timeout 600 coqc -Q %s SV %s/Extract.v && cp %s/ocaml/driver.ml . && "
                         "ocamlfind ocamlopt -w -a -package zarith -linkpkg mv.mli mv.ml driver.ml -o mvdriver.tmp && mv mvdriver.tmp mvdriver"
                         % (COQ, COQ, VERIF), cwd=BUILD, timeout=900)
            if rc:
                return False, "extraction/driver build failed:\n" + out[-3000:]
        return True, "built in %.1fs" % (time.time() - t0)


STMT = re.compile(r"^\s*(Theorem|Lemma|Example|Corollary|Fact|Proposition|Remark)\s+([A-Za-z0-9_']+)", re.M)


def statements(path):
    try:
        return STMT.findall(open(path).read())
    except OSError:
        return []


def requires(path):
    """SV files directly required by a .v file"""
    txt = re.sub(r"\(\*.*?\*\)", "", open(path).read(), flags=re.S)
    out = []
    for m in re.finditer(r"From\s+SV\s+Require\s+(?:Import|Export)\s+((?:[A-Za-z0-9_]+(?:\.[A-Za-z0-9_]+)*\s*)+)\.(?:\s|$)", txt):
        for name in m.group(1).split():
            out.append(os.path.join(COQ, name.replace(".", "/") + ".v"))
    return out


def cone(path, seen=None):
    seen = seen if seen is not None else []
    if path in seen or not os.path.exists(path):
        return seen
    seen.append(path)
    for r in requires(path):
        cone(r, seen)
    return seen


def gate_hits():
    hits = []
    for f in glob.glob(os.path.join(COQ, "**", "*.v"), recursive=True):
        txt = open(f).read()
        txt = re.sub(r"\(\*.*?\*\)", "", txt, flags=re.S)
        for i, line in enumerate(txt.split("\n")):
            if GATE.search(line):
                # Section-local Variable/Hypothesis are allowed; detect by being inside a Section
                hits.append((os.path.relpath(f, COQ), i + 1, line.strip()))
    return hits


def section_aware_gate():
    """forbidden words; Variable/Hypothesis only flagged outside a Section"""
    bad = []
    for f in glob.glob(os.path.join(COQ, "**", "*.v"), recursive=True):
        txt = re.sub(r"\(\*.*?\*\)", "", open(f).read(), flags=re.S)
        depth = 0
        for i, line in enumerate(txt.split("\n")):
            if re.match(r"\s*Section\s", line):
                depth += 1
            if re.match(r"\s*End\s", line) and depth > 0:
                depth -= 1
            m = GATE.search(line)
            if not m:
                continue
            w = m.group(0)
            if w in ("Hypothesis", "Variable", "Variables") and depth > 0:
                continue
            bad.append("%s:%d: %s" % (os.path.relpath(f, COQ), i + 1, line.strip()[:120]))
    return bad


def _vo_digest(coq=None):
    """SHA-256 over the compiled files coqchk looks at: the twenty Props modules and everything they depend on
    (Model/Wire.v, Extract.v and Lemmas/NoZeroCex.v are outside every cone)"""
    import hashlib
    coq = coq or COQ
    files = []
    for i in range(1, 21):
        cone(os.path.join(COQ, "Props", "C%02d.v" % i), files)
    h = hashlib.sha256()
    for f in sorted(set(files)):
        vo = os.path.join(coq, os.path.relpath(f, COQ))[:-2] + ".vo"
        h.update(os.path.relpath(f, COQ).encode())
        h.update(hashlib.sha256(open(vo, "rb").read()).digest() if os.path.exists(vo) else b"missing")
    return h.hexdigest()


def coqchk(pid):
    """independent re-check (coqchk) of the compiled development.  coqchk re-checks every library a
    module depends on, and it evaluates vm_compute proofs with its own slow reduction (Quadrature.v alone
    takes 12 minutes), so ONE run over all twenty Props modules is made per state of the .vo files and
    its result is cached in build/coqchk.json (keyed by a SHA-256 over all .vo files; file lock, so that
    concurrent checks wait for the one that is running).  Returns dict for Props/<pid>."""
    os.makedirs(BUILD, exist_ok=True)
    cache = os.path.join(BUILD, "coqchk.json")
    with open(os.path.join(BUILD, "coqchk.lock"), "w") as lk:
        fcntl.flock(lk, fcntl.LOCK_EX)
        digest = _vo_digest()
        res = None
        # build/coqchk.json (this machine) or coq/coqchk.cache.json (committed: the .vo files are
        # reproducible byte for byte, so the digest of a fresh build matches the one recorded there)
        for cand in (cache, os.path.join(COQ, "coqchk.cache.json")):
            if os.path.exists(cand):
                try:
                    r = json.load(open(cand))
                except Exception:
                    continue
                if r.get("digest") == digest:
                    res = r
                    break
        if not res or res.get("digest") != digest:
            mods = " ".join("SV.Props.C%02d" % i for i in range(1, 21) if os.path.exists(os.path.join(COQ, "Props", "C%02d.vo" % i)))
            t0 = time.time()
            rc, out = sh("timeout 14000 coqchk -silent -o -Q . SV %s 2>&1" % mods, cwd=COQ, timeout=14100)
            m = re.search(r"\* Axioms:(.*?)\n\s*\n\* Constants", out, re.S)
            res = {"digest": digest, "rc": rc, "axioms": m.group(1).strip() if m else "?", "modules": mods.split(),
                   "seconds": round(time.time() - t0, 1), "tail": out[-600:] if rc else ""}
            json.dump(res, open(cache, "w"), indent=1)
        fcntl.flock(lk, fcntl.LOCK_UN)
    covered = ("SV.Props.%s" % pid) in res.get("modules", [])
    return {"rc": res["rc"], "axioms": res["axioms"], "ok": res["rc"] == 0 and res["axioms"] == "<none>" and covered,
            "tail": res.get("tail", ""), "scope": "one coqchk run over all Props modules and everything they depend on",
            "seconds": res.get("seconds"), "cached_for_vo_digest": res["digest"][:16]}


def proof_obligations(pid):
    """compile Props/<pid>.v afresh, collect Print Assumptions output; returns dict"""
    path = os.path.join(COQ, "Props", pid + ".v")
    info = {"file": "coq/Props/%s.v" % pid, "obligations": 0, "discharged": 0, "assumptions": {},
            "problems": [], "theorems": []}
    if not os.path.exists(path):
        info["problems"].append("no theorem file " + path)
        return info
    files = cone(path)
    stmts = []
    for f in files:
        stmts += [(os.path.relpath(f, COQ), k, n) for k, n in statements(f)]
    info["obligations"] = len(stmts)
    info["theorems"] = [n for f, k, n in stmts if f.startswith("Props/")]
    info["cone_files"] = [os.path.relpath(f, COQ) for f in files]
    # every file in the cone must have a fresh .vo
    stale = [f for f in files if not os.path.exists(f[:-2] + ".vo") or os.path.getmtime(f[:-2] + ".vo") < os.path.getmtime(f)]
    rc, out = sh("timeout 900 coqc -Q . SV Props/%s.v" % pid, cwd=COQ, timeout=1000)
    if rc:
        info["problems"].append("coqc Props/%s.v failed: %s" % (pid, out[-1500:]))
        return info
    if stale:
        info["problems"].append("stale .vo: %s" % [os.path.relpath(f, COQ) for f in stale])
        return info
    # parse Print Assumptions blocks
    allow = json.load(open(os.path.join(COQ, "Props", "ALLOW.json")))
    allowed = set(allow.get(pid, []))
    axioms = set()
    for m in re.finditer(r"^([A-Za-z0-9_.']+)\s*:", out, re.M):
        pass
    blocks = re.split(r"\n(?=Closed under the global context|Axioms:)", "\n" + out)
    nclosed = out.count("Closed under the global context")
    for m in re.finditer(r"Axioms:\n((?:.+\n?)+?)(?=\n\S|\Z)", out):
        for line in m.group(1).split("\n"):
            mm = re.match(r"^([A-Za-z0-9_.']+)\s*:", line)
            if mm:
                axioms.add(mm.group(1))
    info["assumptions"] = {"closed_under_global_context": nclosed, "axioms": sorted(axioms)}
    notallowed = sorted(a for a in axioms if a not in allowed)
    if notallowed:
        info["problems"].append("axioms not on the allow-list: %s" % notallowed)
    g = section_aware_gate()
    if g:
        info["problems"].append("grep gate: %s" % g[:5])
    if not info["problems"]:
        info["discharged"] = info["obligations"]
    return info
