"""Check driver: build, proof obligations, correspondence + oracle run, known findings,
decision, evidence."""
import glob
import json
import os
import random
import sys
import time
import traceback

from . import build, ser

VERIF = build.VERIF
TRUSTED_BASE = [
    "Coq 8.16.1 kernel/coqc; vm_compute (finite sweeps, _refuted/_nonvacuous witnesses); no native_compute",
    "axioms: none beyond what Print Assumptions reports per theorem (listed under coverage.assumptions_reported)",
    "extraction: Require Extraction + ExtrOcamlBasic only (bool, option, unit, list, prod, sumbool, sumor, andb, orb); Z/positive/N/nat/Q stay extracted inductives; OCaml 4.13.1 + zarith only for decimal I/O in ocaml/driver.ml",
    "hand-written model coq/Model/*.v tied to /repo/src by behavioural correspondence on generated cases (this run) -- the model is not generated from source",
    "harness (generators, canonicalisation, exact oracle in harness/oracle.py), CPython 3.12.1 Fraction/int semantics",
    "idealisations: float arithmetic as exact rationals; round(sum arctan2) = crossing number; sqrt comparisons = squared comparisons; numpy.dot on object arrays = sums; pynurbs (weights, derivative matrices, split, knot removal, least squares) = textbook definitions; Newton on curved segments = rounded-rational Newton or oracle",
]


class Fail(dict):
    pass


class Ctx:
    def __init__(self, pid, tier, seed):
        self.pid = pid
        self.tier = tier
        self.seed = seed
        self.rng = random.Random("%s-%d" % (pid, seed))
        self._model = None
        self.evaluations = 0
        self.k_cases = 0
        self.k_agreed = 0
        self.set_aside = 0
        self.dist = {}
        self.notes = []
        self.t0 = time.time()

    @property
    def model(self):
        if self._model is None:
            from . import model
            self._model = model.Model()
        return self._model

    def count(self, key, n=1):
        self.dist[key] = self.dist.get(key, 0) + n

    def thorough(self):
        return self.tier == "thorough"

    def n(self, quick, thorough):
        return thorough if self.tier == "thorough" else quick

    def elapsed(self):
        return time.time() - self.t0


def load_known():
    p = os.path.join(VERIF, "known_findings.json")
    if not os.path.exists(p):
        return []
    return json.load(open(p))["findings"]


def corpus_cases(pid):
    out = []
    for f in sorted(glob.glob(os.path.join(VERIF, "corpus", pid, "*.json"))):
        c = ser.from_j(json.load(open(f)))
        c["_corpus"] = os.path.basename(f)
        out.append(c)
    return out


def vm_crosscheck(ctx, nsample, log=None):
    """re-evaluate a sample of the extracted model's calls inside Coq (vm_compute)"""
    if log is None:
        log = ctx._model.log if ctx._model else []
    if not log:
        return {"checked": 0, "ok": True}
    rng = random.Random(ctx.seed)
    sample = rng.sample(log, min(nsample, len(log)))

    def coq(x):
        if isinstance(x, int):
            return "A (%d)" % x
        return "L [" + "; ".join(coq(y) for y in x) + "]"
    from . import wire
    lines = ["From SV Require Import Model.Wire.", "Open Scope Z_scope.",
             "Definition cases : list (sx * sx) := ["]
    lines.append(";\n".join("(%s, %s)" % (coq(wire.loads(a)), coq(wire.loads(b))) for a, b in sample))
    lines += ["].", "Definition bad := filter (fun c => negb (sx_eqb (run (fst c)) (snd c))) cases.",
              "Eval vm_compute in (length bad)."]
    d = os.path.join(build.BUILD, "xc_%s_%d" % (ctx.pid, os.getpid()))
    os.makedirs(d, exist_ok=True)
    open(os.path.join(d, "xc.v"), "w").write("\n".join(lines))
    rc, out = build.sh("ulimit -s unlimited; timeout 600 coqc -Q %s SV xc.v" % build.COQ, cwd=d, timeout=700)
    import shutil
    shutil.rmtree(d, ignore_errors=True)
    ok = rc == 0 and "= 0%nat" in out.replace("\n", " ")
    return {"checked": len(sample), "ok": ok, "output": out[-300:] if not ok else ""}


def _explore(modname, tier, seed, shard, nshards):
    """runs the cases i with i % nshards == shard of the property's stream (known-finding witnesses, corpus,
    generated cases -- every worker generates the same stream from the same seed); returns plain data"""
    import importlib
    import itertools
    mod = importlib.import_module(modname)
    pid = mod.PID
    ctx = Ctx(pid, tier, seed)
    known = [k for k in load_known() if k["property"] == pid]
    out = {"evaluations": 0, "seen": set(), "nontrivial": set(), "samples": [], "k_disagree": [], "oracle_fail": [],
           "kf_hits": {}, "error": None}
    try:
        stream = []
        for k in known:
            if "witness" in k:
                c = ser.from_j(k["witness"])
                c["_known"] = k["id"]
                c["_status"] = k.get("status", "open")
                stream.append(c)
        stream += corpus_cases(pid)
        for idx, case in enumerate(itertools.chain(stream, mod.cases(ctx))):
            if idx % nshards != shard:
                continue
            h = ser.case_hash({k: v for k, v in case.items() if not k.startswith("_")})
            try:
                fails = mod.check(ctx, case)
            except Exception as exc:  # harness bug or model crash: report, do not hide
                fails = [Fail(kind="K", what="harness exception: %r" % (exc,), trace=traceback.format_exc()[-1500:])]
            out["evaluations"] += 1
            if h not in out["seen"]:
                out["seen"].add(h)
                try:
                    if mod.nontrivial(case):
                        out["nontrivial"].add(h)
                except Exception:
                    pass
            if len(out["samples"]) < 4 and not case.get("_known"):
                out["samples"].append(ser.to_j({k: v for k, v in case.items() if not k.startswith("_")}))
            plain = {k: v for k, v in case.items() if not k.startswith("_")}
            if case.get("_known"):
                kid = case["_known"]
                if fails and case["_status"] == "open":
                    out["kf_hits"][kid] = out["kf_hits"].get(kid, 0) + 1
                elif fails:
                    for f in fails:
                        (out["k_disagree"] if f.get("kind") == "K" else out["oracle_fail"]).append((plain, dict(f)))
                continue
            for f in fails:
                cls = None
                for k in known:
                    if k.get("status", "open") != "open" or "class" not in k:
                        continue
                    from . import kf
                    if kf.CLASSES[k["class"]](case, f):
                        cls = k["id"]
                        break
                if cls:
                    out["kf_hits"][cls] = out["kf_hits"].get(cls, 0) + 1
                elif f.get("kind") == "K":
                    out["k_disagree"].append((plain, dict(f)))
                else:
                    out["oracle_fail"].append((plain, dict(f)))
    except Exception as exc:
        out["error"] = (repr(exc), traceback.format_exc()[-3000:])
    out.update({"k_cases": ctx.k_cases, "k_agreed": ctx.k_agreed, "set_aside": ctx.set_aside, "dist": ctx.dist,
                "notes": ctx.notes[:20], "model_calls": ctx._model.calls if ctx._model else 0,
                "model_log": (ctx._model.log[:: max(1, len(ctx._model.log) // 300)] if ctx._model else [])})
    if ctx._model is not None:
        ctx._model.close()
    # keep the failure lists small and picklable
    out["k_disagree"] = [(ser.to_j(c), ser.to_j(f)) for c, f in out["k_disagree"][:20]]
    out["oracle_fail"] = [(ser.to_j(c), ser.to_j(f)) for c, f in out["oracle_fail"][:20]]
    return out


def run_property(mod, tier, seed, replay=None):
    pid = mod.PID
    t0 = time.time()
    ctx = Ctx(pid, tier, seed)
    ok, msg = build.ensure_built()
    violations = []      # (replay_payload, no_failing_input: bool)
    known_lines = []
    if not ok:
        violations.append(({"kind": "build", "message": msg, "theorem_or_correspondence": "coq build / extraction"}, True))
        obl = {"obligations": 0, "discharged": 0, "problems": [msg], "assumptions": {}, "theorems": []}
    else:
        obl = build.proof_obligations(pid)
        if obl["problems"]:
            violations.append(({"kind": "proof", "problems": obl["problems"],
                                "theorem_or_correspondence": obl.get("file")}, True))
    chk = None
    if ok and tier == "thorough" and not replay:
        chk = build.coqchk(pid)
        if not chk["ok"]:
            violations.append(({"kind": "proof", "problems": ["coqchk: rc %s axioms %s %s" % (chk["rc"], chk["axioms"], chk["tail"])],
                                "theorem_or_correspondence": "coqchk SV.Props.%s" % pid}, True))
    known = [k for k in load_known() if k["property"] == pid]
    samples = []
    seen = set()
    nontrivial = set()
    k_disagree = []
    oracle_fail = []
    kf_hits = {}
    model_log = []
    model_calls = 0
    if ok:
        if replay:
            case = ser.from_j(json.load(open(replay)))
            case = case.get("case", case)
            fails = mod.check(ctx, case)
            print("REPLAY case:", json.dumps(ser.to_j(case))[:2000])
            for f in fails:
                print("  FAIL:", json.dumps(ser.to_j(f))[:2000])
            if not fails:
                print("  no failure on the current tree")
            return 1 if fails else 0
        jobs = int(os.environ.get("VERIF_JOBS", "0") or 0)
        if jobs <= 0:
            jobs = min(16, os.cpu_count() or 1) if tier == "thorough" else min(4, os.cpu_count() or 1)
        if getattr(mod, "SERIAL", False):
            jobs = 1
        try:
            if jobs == 1:
                parts = [_explore(mod.__name__, tier, seed, 0, 1)]
            else:
                import multiprocessing
                with multiprocessing.get_context("fork").Pool(jobs) as pool:
                    parts = pool.starmap(_explore, [(mod.__name__, tier, seed, i, jobs) for i in range(jobs)])
            for part in parts:
                ctx.evaluations += part["evaluations"]
                ctx.k_cases += part["k_cases"]
                ctx.k_agreed += part["k_agreed"]
                ctx.set_aside += part["set_aside"]
                for k2, v in part["dist"].items():
                    ctx.dist[k2] = ctx.dist.get(k2, 0) + v
                ctx.notes += part["notes"]
                seen |= part["seen"]
                nontrivial |= part["nontrivial"]
                samples += part["samples"]
                k_disagree += part["k_disagree"]
                oracle_fail += part["oracle_fail"]
                for k2, v in part["kf_hits"].items():
                    kf_hits[k2] = kf_hits.get(k2, 0) + v
                model_log += part["model_log"]
                model_calls += part["model_calls"]
                if part["error"]:
                    violations.append(({"kind": "harness", "message": part["error"][0], "trace": part["error"][1],
                                        "theorem_or_correspondence": "harness for " + pid}, True))
            samples = samples[:4]
        except Exception as exc:
            violations.append(({"kind": "harness", "message": repr(exc), "trace": traceback.format_exc()[-3000:],
                                "theorem_or_correspondence": "harness for " + pid}, True))
    xc = {"checked": 0, "ok": True}
    if ok and model_log:
        try:
            xc = vm_crosscheck(ctx, 200 if tier == "thorough" else 25, model_log)
        except Exception as exc:
            xc = {"checked": 0, "ok": False, "output": repr(exc)}
        if not xc["ok"]:
            violations.append(({"kind": "extraction", "message": "extracted model disagrees with vm_compute: %s" % xc.get("output"),
                                "theorem_or_correspondence": "Extract.v / driver"}, True))
    # ----- decision -----
    for case, f in oracle_fail[:5]:
        violations.append(({"kind": "property", "case": {k: v for k, v in case.items() if not k.startswith("_")}, "fail": f}, False))
    if k_disagree and not oracle_fail:
        # correspondence broke and the oracle saw no property failure on anything explored
        case, f = k_disagree[0]
        violations.append(({"kind": "correspondence", "case": {k: v for k, v in case.items() if not k.startswith("_")}, "fail": f,
                            "theorem_or_correspondence": "correspondence K for %s: %s" % (pid, f.get("what")),
                            "n_disagreements": len(k_disagree)}, True))
    elif k_disagree:
        for case, f in k_disagree[:3]:
            violations.append(({"kind": "correspondence+property", "case": {k: v for k, v in case.items() if not k.startswith("_")}, "fail": f}, False))
    for k in known:
        if k.get("status", "open") == "open" and kf_hits.get(k["id"]):
            known_lines.append("KNOWN-FINDING: property=%s %s: %s (%d case(s) this run)" % (pid, k["id"], k["what"], kf_hits[k["id"]]))
    # ----- evidence -----
    OUT = os.environ.get("VERIF_OUT", VERIF)      # scratch runs (seeded changes) write their evidence elsewhere
    os.makedirs(os.path.join(OUT, "evidence"), exist_ok=True)
    os.makedirs(os.path.join(OUT, "replays"), exist_ok=True)
    out_lines = []
    for payload, nofail in violations:
        h = ser.case_hash(payload)
        rp = os.path.join(OUT, "replays", "%s-%s.json" % (pid, h))
        json.dump(ser.to_j(payload), open(rp, "w"), indent=1)
        out_lines.append("VIOLATION property=%s replay=%s%s" % (pid, rp, " no-failing-input-found" if nofail else ""))
    ev = {
        "property_id": pid, "tier": tier, "seed": seed, "level": "proof",
        "coverage": {
            "obligations": obl.get("obligations", 0), "discharged": obl.get("discharged", 0),
            "checker_cmd": "cd /verif/coq && make (coq_makefile, full .vo) && coqc -Q . SV Props/%s.v  [Print Assumptions under every theorem]" % pid,
            "trusted_base": TRUSTED_BASE + getattr(mod, "TRUSTED_EXTRA", []),
            "theorems": obl.get("theorems", []),
            "cone_files": obl.get("cone_files", []),
            "assumptions_reported": obl.get("assumptions", {}),
            "proof_status": getattr(mod, "PROOF_STATUS", ""),
            "evaluations": ctx.evaluations, "distinct_nontrivial": len(nontrivial),
            "distinct_cases": len(seen),
            "rule": getattr(mod, "RULE", ""),
            "samples": samples if samples else [{"note": "no generated case ran"}],
            "input_distribution": ctx.dist,
            "correspondence": {"cases": ctx.k_cases, "agreed": ctx.k_agreed, "set_aside_rounding": ctx.set_aside,
                               "disagreements": len(k_disagree)},
            "oracle_failures": len(oracle_fail),
            "extraction_crosscheck_vm_compute": xc,
            "coqchk": chk if chk is not None else "thorough tier only",
            "known_findings": kf_hits,
            "model_calls": model_calls,
            "exhaustive": bool(getattr(mod, "EXHAUSTIVE", False) and tier == "thorough"),
            "notes": ctx.notes[:20],
        },
        "assumptions": getattr(mod, "ASSUMPTIONS", []),
        "wall_s": round(time.time() - t0, 2),
        "violations": len(violations),
    }
    json.dump(ev, open(os.path.join(OUT, "evidence", pid + ".json"), "w"), indent=1)
    for l in known_lines:
        print(l)
    for l in out_lines:
        print(l)
    print("%s tier=%s seed=%d: %d evaluations (%d distinct non-trivial), K %d/%d agreed, %d set aside, obligations %d/%d, %d violation(s), %.1fs"
          % (pid, tier, seed, ctx.evaluations, len(nontrivial), ctx.k_agreed, ctx.k_cases, ctx.set_aside,
             obl.get("discharged", 0), obl.get("obligations", 0), len(violations), time.time() - t0))
    return 1 if violations else 0
