"""Implementation side: imports shapepy from /repo/src *as it is now* and converts
between shapepy objects and the plain data the model and the oracle use."""
import os
import sys
import fractions
from fractions import Fraction

REPO_SRC = os.environ.get("SHAPEPY_SRC", "/repo/src")
if REPO_SRC not in sys.path:
    sys.path.insert(0, REPO_SRC)
import warnings
warnings.filterwarnings("ignore")
import numpy as np  # noqa: E402
import shapepy  # noqa: E402
from shapepy import (ConnectedShape, DisjointShape, EmptyShape, IntegrateShape,  # noqa: E402
                     JordanCurve, Point2D, Primitive, SimpleShape, WholeShape)
from shapepy.curve import PlanarCurve, IntegratePlanar, Math, BezierCurve  # noqa: E402
from shapepy.jordancurve import IntegrateJordan  # noqa: E402
from shapepy.polygon import Box  # noqa: E402

assert os.path.realpath(shapepy.__file__).startswith(os.path.realpath(REPO_SRC)), shapepy.__file__

# ---- detector for limit_denominator rounding (harness side, not a source hook) ----
ROUNDINGS = [0]
_orig_ld = fractions.Fraction.limit_denominator


def _ld(self, max_denominator=1000000):
    r = _orig_ld(self, max_denominator)
    try:
        if r != self:
            ROUNDINGS[0] += 1
    except Exception:
        ROUNDINGS[0] += 1
    return r


fractions.Fraction.limit_denominator = _ld


def num(x):
    """exact rational value of any Python number the library stores"""
    if isinstance(x, Fraction):
        return x
    if isinstance(x, (int, np.integer)):
        return Fraction(int(x))
    return Fraction(float(x))


def pt(p):
    return (num(p[0]), num(p[1]))


def seg_data(s):
    return [pt(p) for p in s.ctrlpoints]


def jordan_data(j):
    return [seg_data(s) for s in j.segments]


def shape_data(S):
    if isinstance(S, EmptyShape):
        return ("E",)
    if isinstance(S, WholeShape):
        return ("W",)
    if isinstance(S, SimpleShape):
        return ("S", jordan_data(S.jordans[0]))
    if isinstance(S, ConnectedShape):
        return ("C", [jordan_data(s.jordans[0]) for s in S.subshapes])
    if isinstance(S, DisjointShape):
        return ("D", [shape_data(s) for s in S.subshapes])
    raise TypeError(type(S))


def cast(x, numtype):
    x = Fraction(x)
    if numtype == "float":
        return float(x)
    if numtype == "int" and x.denominator == 1:
        return int(x)
    return x


def mk_jordan(j, numtype="frac"):
    return JordanCurve.from_ctrlpoints(
        [[(cast(p[0], numtype), cast(p[1], numtype)) for p in s] for s in j])


def mk_comp(c, numtype="frac"):
    if c[0] == "S":
        return SimpleShape(mk_jordan(c[1], numtype))
    return ConnectedShape([SimpleShape(mk_jordan(j, numtype)) for j in c[1]])


def mk_shape(s, numtype="frac"):
    if s[0] == "E":
        return EmptyShape()
    if s[0] == "W":
        return WholeShape()
    if s[0] == "D":
        return DisjointShape([mk_comp(c, numtype) for c in s[1]])
    return mk_comp(s, numtype)


HISTS = [[("move", (Fraction(-31), Fraction(17)))], [("scale", Fraction(-1))],
         [("scale", Fraction(1, 3)), ("move", (Fraction(5), Fraction(-2)))],
         [("move", (Fraction(2), Fraction(9))), ("scale", Fraction(-2))], [("scale", Fraction(5, 2))],
         [("move", (Fraction(40), Fraction(-25))), ("move", (Fraction(-3), Fraction(1, 2)))]]


def map_data(s, f):
    if s[0] in "EW":
        return s
    mj = lambda j: [[f(p) for p in sg] for sg in j]
    mc = lambda c: ("S", mj(c[1])) if c[0] == "S" else ("C", [mj(j) for j in c[1]])
    return ("D", [mc(c) for c in s[1]]) if s[0] == "D" else mc(s)


def warm(S):
    """read-only questions that make the library compute (and possibly memoise) boxes, signed lengths, areas,
    winding data: nothing here may change S"""
    if isinstance(S, (EmptyShape, WholeShape)):
        return
    def q():
        b = S.box()
        float(S)
        IntegrateShape.polynomial(S, 1, 0)
        for J in S.jordans:
            J.box()
            float(J)
            v = J.vertices[0]
            (v[0], v[1]) in S
            J in S
        S == S
        probe = Primitive.square(1, center=(float(S.jordans[0].vertices[0][0]) + 100, 0))
        probe in S
        S in probe
    outcome(q)


def mk_shape_hist(s, k=0):
    """the library object for exact shape data s, reached through a history: built elsewhere (displaced / at another
    size / point-reflected), questioned there (warm), then brought into place by the library's own in-place move /
    scale, questioned again after every step.  Exact on Fractions; the final coordinates are those of s."""
    if s[0] in "EW":
        return mk_shape(s)
    steps = HISTS[k % len(HISTS)]
    inv = []
    for name, arg in reversed(steps):
        inv.append((lambda d: (lambda q: (q[0] - d[0], q[1] - d[1])))(arg) if name == "move" else (lambda c: (lambda q: (q[0] / c, q[1] / c)))(arg))
    data = s
    for f in inv:
        data = map_data(data, f)
    S = mk_shape(data, "frac")
    for name, arg in steps:
        warm(S)
        if name == "move":
            S.move(arg)
        else:
            S.scale(arg, arg)
    return S


def kind_of(exc):
    for cls, name in ((AssertionError, "Assertion"), (ValueError, "Value"), (TypeError, "Type"),
                      (IndexError, "Index"), (ZeroDivisionError, "ZeroDivision")):
        if isinstance(exc, cls):
            return name
    return "Other:" + type(exc).__name__


def outcome(fn, conv=lambda x: x):
    """('ok', conv(value)) | ('err', kind)"""
    try:
        v = fn()
    except (KeyboardInterrupt, SystemExit, MemoryError):
        raise
    except BaseException as exc:  # noqa: BLE001
        return ("err", kind_of(exc))
    return ("ok", conv(v))


def outcome_r(fn, conv=lambda x: x):
    """(outcome, rounded): rounded is True when Point2D's limit_denominator changed a value
    during the call -- the exact model does not apply to such a case (set aside, counted)"""
    r0 = ROUNDINGS[0]
    out = outcome(fn, conv)
    return out, ROUNDINGS[0] != r0


def apply_expr(env, e):
    """evaluate an expression tree over shapepy objects"""
    op = e[0]
    if op == "var":
        return env[e[1]]
    if op in ("~", "neg"):
        a = apply_expr(env, e[1])
        return ~a if op == "~" else -a
    a = apply_expr(env, e[1])
    b = apply_expr(env, e[2])
    if op == "|":
        return a | b
    if op == "&":
        return a & b
    if op == "-":
        return a - b
    if op == "^":
        return a ^ b
    if op == "+":
        return a + b
    if op == "*":
        return a * b
    raise ValueError(op)
