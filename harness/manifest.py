"""Writes /verif/MANIFEST.json from the table below: a property is claimed when both its
theorem file coq/Props/Cxx.v and its harness module harness/props/cxx.py exist."""
import json
import os

VERIF = os.path.dirname(os.path.dirname(os.path.abspath(__file__)))

TECH = "machine-checked proof in Coq 8.16 about a hand-written Gallina model + behavioural correspondence (extracted model vs /repo/src) + exact oracle search"
NOTE = ("trusted: Coq kernel/coqc, vm_compute; no axioms (Print Assumptions: closed under the global context) unless listed in the "
        "evidence; extraction with ExtrOcamlBasic only; the hand-written model is tied to the code by running both on generated "
        "inputs on every run (differential testing, not proof); idealisations: float arithmetic as exact rationals, arctan2 angle "
        "sum = crossing number, sqrt comparisons = squared comparisons, pynurbs = textbook definitions; see DESIGN.md section 5")

E = {
 "C01": ("For the model: every operator expression is reduced by a proved induction (expr_sound) to one-step soundness of | & ~; "
         "'never hangs' is proved for all inputs (eval_expr_no_fuel: the three unbounded loops cannot exhaust their fuel); the value of every "
         "expression is proved to be a union of cells of the arrangement of the operands' boundaries (C01_cellwise), and | and & of two "
         "simple polygons in the recombination branch are proved sound (C01_union_sound, C01_intersection_sound, C01_difference_sound); for "
         "strictly convex operands (triangles included) simplicity itself is proved (C01_convex_simple), so every hypothesis of "
         "C01_*_sound_convex is a boolean the check evaluates on generated cases; the same one-step soundness is proved for bounded operands with "
         "holes and several components (C01_*_sound_multi), with its simplicity hypothesis valid01 proved for shapes made of convex polygons with convex holes "
         "(C01_*_sound_multi_convex: only boolean hypotheses). For non-convex operands simplicity stays a named premise (the Jordan curve theorem), as do `^` and "
         "unbounded operands in the recombination branch (partial). The tie to the code and the property itself "
         "are checked on every run: model vs implementation on generated general-position operands and nested expressions, and an exact "
         "oracle that evaluates membership at one point of every cell of the edge arrangement.", "7 C01"),
 "C02": ("Theorem C02_polygon: for every polygonal shape of every kind, every point and flag, contains_point equals the region "
         "specification (exact on-edge test, crossing number, shoelace orientation) wherever the tolerance test answers the exact "
         "question; independent characterisations of the winding number (triangle, reversal, start vertex, inserted vertex; for strictly convex "
         "polygons winding number 1 / 0 / boundary = strictly left of every edge / right of some edge / otherwise: C02_convex_*). Curved "
         "boundaries and the tolerance zone are partial (known findings F12, F19). Correspondence + oracle on every run.", "7 C02"),
 "C03": ("Proved: singleton rows, composition rules (Connected = all, Disjoint = some/all); the curve-in-shape test at the heart of "
         "`B in A` is SOUND and COMPLETE for polygons -- in general position `J in A` holds iff every point of J is inside or on A "
         "(C03_curve_in_shape_iff), lifted to Connected/Disjoint containers. At REGION level `B in A` is proved to decide the subset relation for strictly convex polygons "
         "(C03_convex_in_iff: two decidable hypotheses, evaluated on generated cases; none but the tolerance one when B is a triangle); "
         "for non-convex polygons and holes the area/orientation case analysis of simple-in-simple is not proved (partial; three defects found there were repaired: F10, F11, F22). "
         "Correspondence on all ordered pairs of a pool of shapes, touching boundaries and curved contents + exact subset oracle on every run.", "7 C03"),
 "C04": ("Theorem C04_polygon: for all polygonal shapes of all kinds and a+b <= 14 the quadrature value equals the formal trapezoid "
         "integrals (moment_spec); Newton-Cotes exactness proved up to 19 nodes; area = shoelace; reversal negates; the specification itself is tied to the closed-form integrals over triangles by ear additivity / the fan formula (C04_fan). Curved boundaries: the coordinates of a Bezier segment are polynomials in t and since the repair "
         "of F29 (found by these proofs) the rule is EXACT for every exponent pair whose node count max(4+a+b+d, d(a+b+2)) is within the 19-node table "
         "(C04_curved_moments: cubics to order 4, quadratics to order 7, areas to degree 9); the unrepaired node count is refuted on a cubic first moment. "
         "The library's curved moments are compared exactly with the model's on every run. Correspondence + independent formula (sweep to the other axis) on every run.", "7 C04"),
 "C05": ("Proved: m(~A) = -m(A) edge by edge (reversal), splitting leaves the area and every exactly computed boundary integral unchanged (straight and curved segments of degree <= 6). The inclusion-exclusion identities "
         "themselves rest on the recombination premise of C01 (partial) and are checked exactly on the implementation's results for "
         "every generated pair and nested expression (oracle = the identities, all moments of order <= 2).", "7 C05"),
 "C06": ("Proved for all inputs: every constructed curve is a closed chain, kind tables (~Simple Simple, ~Connected Disjoint, "
         "Empty/Whole rows and columns), a Connected has >= 2 curves and a Disjoint >= 2 components, regrouping keeps the curves; no "
         "zero-length piece is created by any split, in any re-split operand or complement, nor in | / & results whose pieces exceed the "
         "1e-9 point tolerance (and a machine-checked, replayed counterexample below it). Singleton laws, disjointness of components and "
         "freedom from self-crossings are checked by the oracle on every generated shape (partial).", "7 C06"),
 "C07": ("Model of all four __eq__; proved: different kinds compare unequal, == never runs out of fuel and returns a bool on well-formed "
         "polygons, reflexive and start-vertex independent on cleaned polygons, SOUND (a == b implies equal winding numbers, area, boundary "
         "and region when the 1e-9 tolerance cannot confuse control points), symmetric for long pairwise different edges and refuted on a "
         "repeated edge; CHARACTERISED under three decidable premises (== iff same cleaned cycle up to the start vertex), hence an equivalence relation there, and "
         "complete for every change of representation the property names (C07_characterisation, C07_equivalence, C07_complete_representations); transitivity refuted below the tolerance. "
         "'Same region implies same cleaned polygon' for two different polygons and composite shapes are checked on pools of variants by the oracle (exact region "
         "equality) -- partial; known finding F9.", "7 C07"),
 "C08": ("Heap model MH (identity, sharing, in-place mutation): proved frame theorem -- mutating one object leaves every separated "
         "object's geometry unchanged -- and freshness of results, for every history (induction over the operation list). Tied to the "
         "code by comparing control points AND the aliasing partition (id()) after every step of generated histories.", "7 C08"),
 "C09": ("Proved: each distinct point is transformed exactly once under the sharing invariant, winding number / region invariant under "
         "translation and positive scaling, area scales by det, exact invertibility of move/scale/rational rotations. Rotations by float "
         "angles are idealised. Correspondence + oracle on sequences of transformations.", "7 C09"),
 "C10": ("Heap model with the length cache: proved cache coherence is an invariant of every operation (after repair F2), so every query "
         "equals the query on a fresh copy; determinism of the model. Code side: live object vs deep copy vs an object rebuilt from the "
         "current coordinates vs a second process with another PYTHONHASHSEED; evaluation orders across objects in cold processes.", "7 C10"),
 "C11": ("Step-indexed heap model: proved that every prefix of a non-mutating operation leaves the operands' geometry intact (after "
         "repair F4) and that transformations validate before mutating (after repair F5). Code side: exception injection at every k-th "
         "internal call.", "7 C11"),
 "C12": ("Proved: crossing parameters, evaluation, winding numbers, regions, moments commute with translations / scalings (and linear "
         "maps where true); the absolute tolerances are the only scale dependence (pt_eq scaling lemma). The WHOLE operator pipeline is proved "
         "translation-equivariant for polygonal shapes (C12_translate_*: T(A) op T(B) is T(A op B) as data for | & - ^ ~, point and shape "
         "containment, ==; hypotheses: non-empty closed curves, both necessary). Rotations and scalings of the pipeline are "
         "checked by correspondence/oracle on transformed cases, also with T applied in place to operands already used (partial; known finding F13/F19).", "7 C12"),
 "C13": ("Proved: model of CPython's limit_denominator is total, bounded, in lowest terms, identity below the cap, and its 3.11 and 3.12 "
         "closing tests agree; coordinates are stored unchanged when the denominator is <= 1e9. Exactness of derived values is C14/C15/C04. "
         "Types and exact values of every number are checked on the implementation on every run.", "7 C13"),
 "C14": ("Proved for all polygonal curves: index ranges, parameters in [0,1] with exactly equal points, every common point of two "
         "non-parallel segments is reported, None rows only for equal segments, swap symmetry, flag semantics, never raises. The number of crossings of two closed polygons with no vertex on each other is EVEN and "
         "equals the number of rows reported (C14_even, C14_rows_are_crossings; boolean hypotheses evaluated per case). Curved crossings: oracle only (partial).", "7 C14"),
 "C15": ("Proved for straight segments: pieces retrace, junctions lie at the split parameters, no zero-length piece, area and winding "
         "number unchanged, closedness preserved, split is TOTAL on valid requests (repeated / nearly equal parameters merged), clean "
         "idempotent and complete. Curved segments of degree <= 6: pieces and exactly cleaned pieces retrace positions and velocities, every split keeps the area and every boundary integral the library computes (C15_curved_*); the library's inexact least-squares degree reduction (<= 1e-9) is outside the model (set aside, judged at the property's tolerance). F15/F15c/F25/F29 repaired; known finding F15b.", "7 C15"),
 "C16": ("Proved over Q: square/triangle/polygon/regular_polygon(4) vertex lists, positive area, closed-form areas; circle arcs lie in "
         "the band r^2 <= |B(t)-c|^2 <= r^2(1+h^4/(4(1+h^2))) (polynomial identity). Validation matrix and float trigonometry by "
         "correspondence.", "7 C16"),
 "C17": ("Proved: from_vertices never raises and equals from_ctrlpoints of its edges; vertices are listed once in order; from_segments "
         "rejects exactly the open chains (1e-9) and only with an assertion; box encloses every point of every segment. from_full_curve "
         "(pynurbs) by correspondence only.", "7 C17"),
 "C18": ("Proved for degrees 1..6, all control points and parameters: evaluation = Bernstein sum, derivative, split retraces, box "
         "encloses, comb = binomial (all n), on-curve test is sound for any projection. Completeness of `in` on curved segments and the "
         "subtended angle: oracle only.", "7 C18"),
 "C19": ("Proved: containment, area and moments of Connected/Disjoint do not depend on the order of the list; the sort is a permutation; "
         "Disjoint of one member is that member, of none is Empty. Equality with operator results is checked by correspondence/oracle.", "7 C19"),
 "C20": ("Model of patch_segment/path_shape/path_jordan and of matplotlib's path codes: proved decode(path(S)) = boundary segments for "
         "every shape with segments of degree <= 3 (after repair F3). Code side: Path.vertices/codes of every patch on an Agg canvas.", "7 C20"),
}


def main():
    checks = []
    na = []
    for i in range(1, 21):
        pid = "C%02d" % i
        have = (os.path.exists(os.path.join(VERIF, "coq", "Props", pid + ".v")) and
                os.path.exists(os.path.join(VERIF, "harness", "props", pid.lower() + ".py")))
        if not have:
            na.append({"property_id": pid, "reason": "check not built yet (build in progress, see DESIGN.md section 11)"})
            continue
        text, ref = E[pid]
        checks.append({
            "property_id": pid,
            "quick_cmd": "bin/vcheck %s --tier quick" % pid,
            "thorough_cmd": "bin/vcheck %s --tier thorough" % pid,
            "evidence_file": "/verif/evidence/%s.json" % pid,
            "replay_cmd_template": "bin/vcheck %s --replay {path}" % pid,
            "engine": "coq+correspondence",
            "level_claimed": {"category": "proof", "text": text, "design_ref": "DESIGN.md section " + ref},
            "level_note": NOTE,
            "technique": TECH,
        })
    man = {
        "version": 1,
        "setup_cmd": "bin/vsetup",
        "hooks": {
            "guard": "SHAPEPY_VERIF",
            "enable": "no source hooks: checks import /repo/src as it is (bin/vcheck sets SHAPEPY_VERIF=1, nothing in the source reads it)",
            "baseline_off_cmd": "cd /repo && /venv/bin/python -m pytest -q -p no:cacheprovider",
            "source_commits": [],
            "add_only": True,
        },
        "engines": [{"name": "coq+correspondence", "path": "/verif/bin/vcheck",
                     "serves_properties": [c["property_id"] for c in checks],
                     "kind_free_text": "Coq 8.16 theorems about a Gallina model (coq/), extracted to OCaml and run against /repo/src by harness/"}],
        "checks": checks,
        "notes": "fix: commits in /repo (genuine defects repaired) are listed in known_findings.json; see DESIGN.md section 8",
        "not_applicable": na,
    }
    json.dump(man, open(os.path.join(VERIF, "MANIFEST.json"), "w"), indent=1)
    print("claimed:", [c["property_id"] for c in checks])


if __name__ == "__main__":
    main()
