"""Independent exact specification functions (Fractions only).
Written independently of the code under test and of the model's algorithms:
winding numbers use a *horizontal* ray to the right (the model uses the upward
vertical ray), moments use the sweep to the x-axis with formal polynomial
integration (the code and the model use the sweep to the y-axis and quadrature)."""
from fractions import Fraction
from math import comb

F = Fraction


def edges_of(j):
    """straight edges of a polygonal curve (list of 2-point segments)"""
    return [(s[0], s[-1]) for s in j]


def is_polygon(j):
    return all(len(s) == 2 for s in j)


def on_edge(a, b, p):
    cr = (b[0] - a[0]) * (p[1] - a[1]) - (b[1] - a[1]) * (p[0] - a[0])
    if cr != 0:
        return False
    return (min(a[0], b[0]) <= p[0] <= max(a[0], b[0])) and (min(a[1], b[1]) <= p[1] <= max(a[1], b[1]))


def bez(s, t):
    """de Casteljau evaluation (independent of the matrix/Horner evaluation)"""
    pts = [tuple(p) for p in s]
    while len(pts) > 1:
        pts = [((1 - t) * a[0] + t * b[0], (1 - t) * a[1] + t * b[1]) for a, b in zip(pts, pts[1:])]
    return pts[0]


def bez_split(s, t):
    pts = [tuple(p) for p in s]
    left, right = [pts[0]], [pts[-1]]
    while len(pts) > 1:
        pts = [((1 - t) * a[0] + t * b[0], (1 - t) * a[1] + t * b[1]) for a, b in zip(pts, pts[1:])]
        left.append(pts[0])
        right.append(pts[-1])
    return left, right[::-1]


def wn_edges(edges, p):
    """winding number of a closed chain of straight edges about p (p not on it):
    signed crossings of the horizontal ray from p to the right"""
    w = 0
    for a, b in edges:
        if (a[1] <= p[1]) != (b[1] <= p[1]):
            # x of the crossing with the horizontal line y = p.y
            t = (p[1] - a[1]) / (b[1] - a[1])
            x = a[0] + t * (b[0] - a[0])
            if x > p[0]:
                w += 1 if b[1] > a[1] else -1
    return w


def hull_contains(s, p):
    """p inside or on the bounding box of the control polygon (cheap superset of the hull)"""
    xs = [q[0] for q in s]
    ys = [q[1] for q in s]
    return min(xs) <= p[0] <= max(xs) and min(ys) <= p[1] <= max(ys)


def curved_chords(s, p, depth=40):
    """chords replacing the Bezier segment s that are homotopic to it in the plane minus p:
    halve until p is outside the control box of every piece"""
    if len(s) == 2 or not hull_contains(s, p) or depth == 0:
        return [(s[0], s[-1])]
    l, r = bez_split(s, F(1, 2))
    return curved_chords(l, p, depth - 1) + curved_chords(r, p, depth - 1)


def wn(j, p):
    """exact winding number of the closed Bezier chain j about p (p off the curve)"""
    edges = []
    for s in j:
        edges += curved_chords(s, p)
    return wn_edges(edges, p)


def on_boundary_poly(j, p):
    return any(on_edge(a, b, p) for a, b in edges_of(j))


def signed_area2_poly(j):
    vs = [s[0] for s in j]
    return sum(a[0] * b[1] - a[1] * b[0] for a, b in zip(vs, vs[1:] + vs[:1]))


def ccw(j):
    """orientation of a closed Bezier chain: sign of the exact area (formal integral of x dy)"""
    return moment_jordan(j, 0, 0) > 0


def region_simple(j, p, onb=None):
    """'in' | 'out' | 'bdry' | 'undef' for the simple shape on curve j"""
    if onb is None:
        onb = on_boundary_poly(j, p) if is_polygon(j) else False
    if onb:
        return "bdry"
    w = wn(j, p)
    if ccw(j):
        return {1: "in", 0: "out"}.get(w, "undef")
    return {0: "in", -1: "out"}.get(w, "undef")


def region_comp(c, p):
    if c[0] == "S":
        return region_simple(c[1], p)
    rs = [region_simple(j, p) for j in c[1]]
    if "undef" in rs:
        return "undef"
    if "out" in rs:
        return "out"
    if "bdry" in rs:
        return "bdry"
    return "in"


def region(s, p):
    if s[0] == "E":
        return "out"
    if s[0] == "W":
        return "in"
    if s[0] != "D":
        return region_comp(s, p)
    rs = [region_comp(c, p) for c in s[1]]
    if "undef" in rs:
        return "undef"
    if "in" in rs:
        return "in"
    if "bdry" in rs:
        return "bdry"
    return "out"


def shape_jordans(s):
    if s[0] in "EW":
        return []
    if s[0] == "S":
        return [s[1]]
    if s[0] == "C":
        return list(s[1])
    out = []
    for c in s[1]:
        out += shape_jordans(c)
    return out


# ---------------- complete slab sampling (polygons) ----------------
def seg_x_intersections(e1, e2):
    (a, b), (c, d) = e1, e2
    v0 = (b[0] - a[0], b[1] - a[1])
    v1 = (d[0] - c[0], d[1] - c[1])
    den = v0[0] * v1[1] - v0[1] * v1[0]
    if den == 0:
        return []
    dd = (c[0] - a[0], c[1] - a[1])
    t = (dd[0] * v1[1] - dd[1] * v1[0]) / den
    u = (dd[0] * v0[1] - dd[1] * v0[0]) / den
    if 0 <= t <= 1 and 0 <= u <= 1:
        return [a[0] + t * v0[0]]
    return []


def slab_samples(jordans_list, margin=F(1)):
    """one rational point in every cell of the arrangement of the given polygonal curves"""
    edges = []
    for j in jordans_list:
        edges += edges_of(j)
    xs = set()
    for a, b in edges:
        xs.add(a[0])
        xs.add(b[0])
    for i, e1 in enumerate(edges):
        for e2 in edges[i + 1:]:
            for x in seg_x_intersections(e1, e2):
                xs.add(x)
    xs = sorted(xs)
    if not xs:
        return [(F(0), F(0))]
    pts = []
    cols = [xs[0] - margin] + [(x0 + x1) / 2 for x0, x1 in zip(xs, xs[1:])] + [xs[-1] + margin]
    for x in cols:
        ys = set()
        for a, b in edges:
            if a[0] == b[0]:
                continue
            lo, hi = min(a[0], b[0]), max(a[0], b[0])
            if lo < x < hi:
                t = (x - a[0]) / (b[0] - a[0])
                ys.add(a[1] + t * (b[1] - a[1]))
        ys = sorted(ys)
        if not ys:
            pts.append((x, F(0)))
            continue
        pts.append((x, ys[0] - margin))
        for y0, y1 in zip(ys, ys[1:]):
            pts.append((x, (y0 + y1) / 2))
        pts.append((x, ys[-1] + margin))
    return pts


# ---------------- formal polynomial integration ----------------
def p_add(p, q):
    n = max(len(p), len(q))
    return [(p[i] if i < len(p) else 0) + (q[i] if i < len(q) else 0) for i in range(n)]


def p_mul(p, q):
    out = [F(0)] * (len(p) + len(q) - 1) if p and q else []
    for i, a in enumerate(p):
        for k, b in enumerate(q):
            out[i + k] += a * b
    return out


def p_pow(p, n):
    out = [F(1)]
    for _ in range(n):
        out = p_mul(out, p)
    return out


def p_der(p):
    return [k * c for k, c in enumerate(p)][1:]


def p_int01(p):
    return sum(F(c) / (k + 1) for k, c in enumerate(p))


def bern_poly(coords):
    """monomial coefficients (low first) of sum_i B_{i,d}(t) c_i"""
    d = len(coords) - 1
    out = [F(0)] * (d + 1)
    for i, c in enumerate(coords):
        # B_{i,d} = C(d,i) t^i (1-t)^(d-i)
        for k in range(d - i + 1):
            out[i + k] += comb(d, i) * comb(d - i, k) * (-1) ** k * F(c)
    return out


def moment_jordan(j, a, b):
    """integral of x^a y^b over the region enclosed by j (signed by orientation), by the
    sweep to the x-axis:  - oint x^a y^(b+1)/(b+1) dx """
    tot = F(0)
    for s in j:
        X = bern_poly([p[0] for p in s])
        Y = bern_poly([p[1] for p in s])
        integrand = p_mul(p_mul(p_pow(X, a), p_pow(Y, b + 1)), p_der(X))
        tot -= p_int01(integrand) / (b + 1)
    return tot


def moment_shape(s, a, b):
    return sum((moment_jordan(j, a, b) for j in shape_jordans(s)), F(0))
