"""Wire format shared with coq/Model/Wire.v: s-expressions of integers and lists."""
from fractions import Fraction


def dumps(x):
    if isinstance(x, bool):
        return "1" if x else "0"
    if isinstance(x, int):
        return str(x)
    return "(" + " ".join(dumps(y) for y in x) + ")"


def loads(s):
    pos = 0
    n = len(s)

    def item():
        nonlocal pos
        while pos < n and s[pos] == " ":
            pos += 1
        if s[pos] == "(":
            pos += 1
            out = []
            while True:
                while pos < n and s[pos] == " ":
                    pos += 1
                if s[pos] == ")":
                    pos += 1
                    return out
                out.append(item())
        j = pos
        while pos < n and s[pos] not in " ()":
            pos += 1
        return int(s[j:pos])

    return item()


# ---------------- encoders (plain data -> wire) ----------------
def e_Q(q):
    q = Fraction(q)
    return [q.numerator, q.denominator]


def e_point(p):
    return [e_Q(p[0]), e_Q(p[1])]


def e_seg(s):
    return [e_point(p) for p in s]


def e_jordan(j):
    return [e_seg(s) for s in j]


def e_comp(c):
    if c[0] == "S":
        return [2, e_jordan(c[1])]
    return [3, [e_jordan(j) for j in c[1]]]


def e_shape(s):
    if s[0] == "E":
        return [0]
    if s[0] == "W":
        return [1]
    if s[0] == "D":
        return [4, [e_comp(c) for c in s[1]]]
    return e_comp(s)


OPS = {"var": 0, "|": 1, "&": 2, "-": 3, "^": 4, "~": 5, "+": 6, "*": 7, "neg": 8}


def e_expr(e):
    """e = ('var', i) | (op, a, b) | ('~', a) | ('neg', a)"""
    if e[0] == "var":
        return [0, e[1]]
    return [OPS[e[0]]] + [e_expr(a) for a in e[1:]]


# ---------------- decoders (wire -> plain data) ----------------
def d_Q(x):
    return Fraction(x[0], x[1])


def d_point(x):
    return (d_Q(x[0]), d_Q(x[1]))


def d_seg(x):
    return [d_point(p) for p in x]


def d_jordan(x):
    return [d_seg(s) for s in x]


def d_comp(x):
    if x[0] == 2:
        return ("S", d_jordan(x[1]))
    return ("C", [d_jordan(j) for j in x[1]])


def d_shape(x):
    if x[0] == 0:
        return ("E",)
    if x[0] == 1:
        return ("W",)
    if x[0] == 4:
        return ("D", [d_comp(c) for c in x[1]])
    return d_comp(x)


KINDS = {1: "Assertion", 2: "Value", 3: "Type", 4: "Index", 5: "ZeroDivision", 6: "Other"}


def d_res(f, x):
    """-> ('ok', value) | ('err', kind) | ('nofuel',)"""
    if x[0] == 0:
        return ("ok", f(x[1]))
    if x[0] == 1:
        return ("err", KINDS[x[1]])
    return ("nofuel",)


def d_bool(x):
    return bool(x)


def d_box(x):
    return tuple(d_Q(q) for q in x)


def d_irow(x):
    if len(x) == 2:
        return (x[0], x[1], None, None)
    return (x[0], x[1], d_Q(x[2]), d_Q(x[3]))


def d_inter(x):
    if x[0] == 0:
        return None
    if x[0] == 1:
        return ()
    return tuple((d_Q(u), d_Q(v)) for u, v in x[1])
