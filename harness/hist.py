"""Histories of API operations, executed on the implementation and on the heap model MH.

A history is a list of ops over variables 0,1,2,...:
  ("new", shape_data, numtype)        -> new var          (constructors)
  ("copy", x)  ("not", x)  ("bin", op, x, y)               -> new var
  ("move", x, (vx, vy))  ("scale", x, (sx, sy))  ("rot", x, (c, s))    in place (c,s rational point of the unit circle)
  ("contains", x, p, b)  ("float", x)                       queries
Observables after the history: exact geometry of every variable, the aliasing partition of all
control-point slots (id() on the implementation side, locations in MH), float(jordan) of every curve.
"""
import copy as _copy
import math
from fractions import Fraction as F

from . import impl as I, util as U, wire as W

BOPS = {"|": 1, "&": 2, "-": 3, "^": 4}


# ---------------- implementation side ----------------
def impl_step(env, op):
    k = op[0]
    if k == "new":
        env.append(I.mk_shape(op[1], op[2] if len(op) > 2 else "frac"))
    elif k == "copy":
        env.append(_copy.deepcopy(env[op[1]]))
    elif k == "not":
        env.append(~env[op[1]])
    elif k == "bin":
        a, b = env[op[2]], env[op[3]]
        env.append({"|": lambda: a | b, "&": lambda: a & b, "-": lambda: a - b, "^": lambda: a ^ b}[op[1]]())
    elif k == "move":
        r = env[op[1]].move(op[2][0], op[2][1])
        assert r is env[op[1]]
    elif k == "scale":
        r = env[op[1]].scale(op[2][0], op[2][1])
        assert r is env[op[1]]
    elif k == "rot":
        c, s = op[2]
        r = env[op[1]].rotate(math.atan2(float(s), float(c)))
        assert r is env[op[1]]
    elif k == "contains":
        x = env[op[1]]
        if hasattr(x, "contains_point"):
            x.contains_point(op[2], op[3])
        else:
            op[2] in x
    elif k == "float":
        for j in getattr(env[op[1]], "jordans", ()):
            float(j)
    elif k == "poly":
        # moment queries (no counterpart in the heap model: they change nothing there)
        x = env[op[1]]
        if hasattr(x, "jordans"):
            for a, b in ((0, 0), (1, 0), (0, 1), (1, 1), (2, 0)):
                I.IntegrateShape.polynomial(x, a, b)
    else:
        raise ValueError(k)


def impl_run(history):
    env = []
    for op in history:
        impl_step(env, op)
    return env


def impl_slots(env):
    """[(slot, id)] with slot = (var, curve index, segment index, point index)"""
    out = []
    for v, S in enumerate(env):
        for c, j in enumerate(getattr(S, "jordans", ())):
            for i, sg in enumerate(j.segments):
                for k, p in enumerate(sg.ctrlpoints):
                    out.append(((v, c, i, k), id(p)))
    return out


def partition(slots):
    """canonical form of the aliasing partition: sorted list of sorted blocks with >= 2 slots"""
    blocks = {}
    for slot, ident in slots:
        blocks.setdefault(ident, []).append(slot)
    return sorted(sorted(b) for b in blocks.values() if len(b) > 1)


# ---------------- model side ----------------
def e_op(op, env_data=None):
    k = op[0]
    if k == "new":
        return [0, W.e_shape(op[1])]
    if k == "copy":
        return [1, op[1]]
    if k == "not":
        return [2, op[1]]
    if k == "bin":
        return [3, BOPS[op[1]], op[2], op[3]]
    if k == "move":
        return [4, op[1], W.e_point(op[2])]
    if k == "scale":
        return [5, op[1], W.e_point(op[2])]
    if k == "rot":
        return [6, op[1], W.e_point(op[2])]
    if k == "contains":
        return [7, op[1], W.e_point(op[2]), bool(op[3])]
    if k == "float":
        return [8, op[1]]
    raise ValueError(k)


def d_hshape(x):
    if x[0] == 0:
        return ("E",)
    if x[0] == 1:
        return ("W",)
    if x[0] == 2:
        return ("S", x[1])
    if x[0] == 3:
        return ("C", x[1])
    return ("D", [d_hshape(c) for c in x[1]])


def hshape_curves(s):
    if s[0] in "EW":
        return []
    if s[0] == "S":
        return [s[1]]
    if s[0] == "C":
        return list(s[1])
    out = []
    for c in s[1]:
        out += hshape_curves(c)
    return out


class MState:
    def __init__(self, raw):
        self.pts = [W.d_point(p) for p in raw[0]]
        self.curves = [{"segs": c[0], "cache": (W.d_jordan(c[1][0]) if c[1] else None)} for c in raw[1]]
        self.env = [d_hshape(s) for s in raw[2]]
        self.wf = bool(raw[3])

    def geom(self, c):
        return [[self.pts[l] for l in sg] for sg in self.curves[c]["segs"]]

    def comp_data(self, s):
        if s[0] == "S":
            return ("S", self.geom(s[1]))
        return ("C", [self.geom(c) for c in s[1]])

    def shape_data(self, v):
        s = self.env[v]
        if s[0] in "EW":
            return s
        if s[0] == "D":
            return ("D", [self.comp_data(c) for c in s[1]])
        return self.comp_data(s)

    def slots(self):
        out = []
        for v, s in enumerate(self.env):
            for c, cid in enumerate(hshape_curves(s)):
                for i, sg in enumerate(self.curves[cid]["segs"]):
                    for k, l in enumerate(sg):
                        out.append(((v, c, i, k), l))
        return out


def model_ops(history):
    return [e_op(op) for op in history if op[0] != "poly"]


def model_run(model, history):
    """('ok', MState) | ('err', kind) | ('nofuel',)"""
    r = model.raw([50, model_ops(history)])
    return W.d_res(MState, r)


def model_contains(model, history, v, p, b):
    return W.d_res(W.d_bool, model.raw([51, model_ops(history), v, W.e_point(p), bool(b)]))


def model_floats(model, history, v):
    return W.d_res(lambda x: [(bool(c[0]), W.d_jordan(c[1])) for c in x], model.raw([52, model_ops(history), v]))


# ---------------- comparison ----------------
def flat_shape(s):
    """list of curves in jordans order"""
    from . import oracle as O
    return O.shape_jordans(s)


def compare(env, ms, exact=True):
    """-> list of strings describing differences between the implementation env and the model state"""
    diffs = []
    if len(env) != len(ms.env):
        return ["number of variables %d vs %d" % (len(env), len(ms.env))]
    aligned = True
    for v, S in enumerate(env):
        di = I.shape_data(S)
        dm = ms.shape_data(v)
        if di[0] != dm[0]:
            diffs.append("var %d: kind %s vs %s" % (v, di[0], dm[0]))
            aligned = False
            continue
        ji, jm = flat_shape(di), flat_shape(dm)
        if len(ji) != len(jm) or not all(U.jordan_same(a, b, exact, rotate=False) for a, b in zip(ji, jm)):
            if U.shape_same(di, dm, exact) or (not exact and U.shape_same(U.drop_collinear(di), U.drop_collinear(dm), exact)):
                # same shape, other order of curves / start vertex (float data: a removable vertex that clean() kept or
                # dropped depending on roundings): representation drift
                aligned = False
            else:
                diffs.append("var %d: geometry differs" % v)
                aligned = False
    if aligned and not diffs:
        pi, pm = partition(impl_slots(env)), partition(ms.slots())
        if pi != pm:
            only_i = [b for b in pi if b not in pm][:3]
            only_m = [b for b in pm if b not in pi][:3]
            diffs.append("aliasing partition differs: impl-only %r model-only %r" % (only_i, only_m))
    return diffs


def snapshot(env):
    return [I.shape_data(S) for S in env]


# ---------------- generation (adaptive: kinds are read off the implementation) ----------------
def gen_history(rng, nops, nvars0=2, R=8, ops=("bin", "copy", "not", "move", "scale", "rot", "contains", "float"),
                weights=None, gen=None, signed_scale=False):
    """random history; transformations are only applied to non-singleton variables"""
    from . import gen as G
    gen = gen or (lambda: G.any_shape(rng, R=R, kinds=("S", "S", "C", "D", "U")))
    hist, env = [], []
    for _ in range(nvars0):
        s = gen()
        op = ("new", I.shape_data(I.mk_shape(s)), "frac")
        impl_step(env, op)
        hist.append(op)
    weights = weights or {"bin": 3, "copy": 1, "not": 1, "move": 2, "scale": 2, "rot": 1, "contains": 1, "float": 1}
    bag = [o for o in ops for _ in range(weights.get(o, 1))]
    tries = 0
    while len(hist) < nvars0 + nops and tries < 10 * nops:
        tries += 1
        k = rng.choice(bag)
        x = rng.randrange(len(env))
        single = isinstance(env[x], (I.EmptyShape, I.WholeShape))
        if k == "bin":
            y = rng.randrange(len(env))
            op = ("bin", rng.choice("|&-^"), x, y)
            # keep the operands in general position (the non-transversal class is a known finding)
            from . import opcases as OC
            dx, dy = I.shape_data(env[x]), I.shape_data(env[y])
            if x == y or not OC.env_general_position([dx, dy]):
                continue
        elif k == "copy":
            op = ("copy", x)
        elif k == "not":
            op = ("not", x)
        elif single:
            continue
        elif k == "move":
            op = ("move", x, (F(rng.randint(-12, 12), rng.choice([1, 2, 3])), F(rng.randint(-12, 12), rng.choice([1, 4]))))
        elif k == "scale":
            op = ("scale", x, (F(rng.randint(1, 8), rng.choice([1, 2, 3])), F(rng.randint(1, 8), rng.choice([1, 2, 5]))))
            if signed_scale and rng.random() < 0.5:
                # reflections / point reflections (the library accepts any non-zero factors)
                # point reflections only (det > 0): a mirror flips bounded <-> unbounded and turns composite
                # shapes into objects that are not valid shapes any more
                k = rng.choice([(-1, -1), (-2, -2), (F(-1, 2), F(-1, 2)), (-3, -2), (-1, -4)])
                op = ("scale", x, (F(k[0]), F(k[1])))
        elif k == "rot":
            op = ("rot", x, rng.choice([(F(3, 5), F(4, 5)), (F(0), F(1)), (F(-4, 5), F(3, 5)), (F(5, 13), F(-12, 13))]))
        elif k == "contains":
            op = ("contains", x, (F(rng.randint(-9, 9)), F(rng.randint(-9, 9))), rng.random() < 0.5)
        else:
            op = ("float", x)
        try:
            impl_step(env, op)
        except Exception:
            break                   # the history up to here is the case; the failing op is dropped
        hist.append(op)
    return hist


def is_exact_history(hist):
    return not any(op[0] == "rot" for op in hist)


def resplit_of(d0, d1, exact=True):
    """d1 denotes d0 with (possibly) more vertices on the same edges: same kind, curves in the same order,
    each curve of d1 goes through the vertices of d0 in order and adds only points on d0's edges"""
    from . import oracle as O
    if d0[0] != d1[0]:
        return False
    j0, j1 = O.shape_jordans(d0), O.shape_jordans(d1)
    if len(j0) != len(j1):
        return False
    for a, b in zip(j0, j1):
        if not (O.is_polygon(a) and O.is_polygon(b)):
            if not U.jordan_same(a, b, exact, rotate=False):
                return False
            continue
        va, vb = [s[0] for s in a], [s[0] for s in b]
        if va[0] != vb[0]:
            return False
        i = 0
        for k, p in enumerate(vb):
            if i < len(va) and p == va[i]:
                i += 1
            else:
                # p must lie on the edge va[i-1] -> va[i % n] (float data: within 1e-9 of it)
                q0, q1 = va[i - 1], va[i % len(va)]
                if exact:
                    if not O.on_edge(q0, q1, p):
                        return False
                else:
                    from .opcases import dist2_point_seg
                    scale = max(1, abs(q0[0]), abs(q0[1]), abs(q1[0]), abs(q1[1]))
                    if dist2_point_seg(p, q0, q1) > (F(1, 10 ** 9) * scale) ** 2:
                        return False
        if i != len(va):
            return False
    return True
