"""Curved operands with a closed-form oracle: the cap under a parabola against polygons.

A = {0 < y < h (1 - x^2/a^2)}: its boundary is the base (-a,0)->(a,0) plus ONE quadratic Bezier piece with
control points (a,0), (0,2h), (-a,0), which is exactly that parabola (x(t) = a (1 - 2t) is linear in t).
B = a polygon in general position with margins (no vertex near A's boundary, no tangency, crossings away from
the ends).  Membership in A and B is known exactly, the region of a result is read off its control points by a
crossing number for segments of degree <= 2."""
import math
from fractions import Fraction as F

from . import gen as G, impl as I, oracle as O
from .opcases import dist2_point_seg


def par(a, h, x):
    return h * (1 - x * x / (a * a))


def _crossings(a, h, p, q):
    """parameters s in (0,1) of the edge p->q where it crosses the arc (kind 'arc', with the arc parameter t) or the base"""
    px, py, qx, qy = p[0], p[1], q[0], q[1]
    dx, dy = qx - px, qy - py
    out = []
    if (py > 0) != (qy > 0):
        s = -py / dy
        x = px + s * dx
        if abs(x) < a:
            out.append((s, "base", (x + a) / (2 * a)))
    k = h / (a * a)
    A, B, C = k * dx * dx, dy + 2 * k * px * dx, py - h + k * px * px
    roots = []
    if abs(A) < 1e-12:
        if abs(B) > 1e-12:
            roots = [-C / B]
    else:
        disc = B * B - 4 * A * C
        if disc > 0:
            r = math.sqrt(disc)
            roots = [(-B - r) / (2 * A), (-B + r) / (2 * A)]
    for s in roots:
        x = px + s * dx
        if 0 < s < 1 and abs(x) < a:
            out.append((s, "arc", (1 - x / a) / 2))
    return sorted(out)


def ok_position(a, h, vs, m=0.02):
    a, h = float(a), float(h)
    ncross = 0
    for i in range(len(vs)):
        p = (float(vs[i][0]), float(vs[i][1]))
        q = (float(vs[(i + 1) % len(vs)][0]), float(vs[(i + 1) % len(vs)][1]))
        px, py = p
        if abs(px) <= a + m and abs(py - par(a, h, px)) < m:
            return False
        if abs(py) < m and abs(px) <= a + m:
            return False
        if math.hypot(px - a, py) < 5 * m or math.hypot(px + a, py) < 5 * m:
            return False
        # no edge may pass near a corner of the cap
        for cx in (a, -a):
            if dist2_point_seg((F(cx), F(0)), (F(px), F(py)), (F(q[0]), F(q[1]))) < F(5 * m) ** 2:
                return False
        dx, dy = q[0] - px, q[1] - py
        k = h / (a * a)
        A, B, C = k * dx * dx, dy + 2 * k * px * dx, py - h + k * px * px
        if abs(A) >= 1e-12:
            disc = B * B - 4 * A * C
            if abs(disc) < 1e-3 * (B * B + abs(4 * A * C)):
                return False                       # (nearly) tangent
        # crossings of the prolonged edge near its ends or near the corners of the cap
        for s, kind, t in _crossings(a, h, (px - m * dx, py - m * dy), (q[0] + m * dx, q[1] + m * dy)):
            s0 = (s * (1 + 2 * m)) - m
            if s0 < m or s0 > 1 - m or t < 2 * m or t > 1 - 2 * m:
                return False
            ncross += 1
    return ncross >= 2


def cap_case(rng):
    for _ in range(2000):
        a = rng.choice([1, 2, 3])
        h = rng.choice([1, 2, 3, 4])
        c = (rng.uniform(-a, a), rng.uniform(-0.5, h))
        vs = G.ccw(G.star_polygon(rng, n=rng.randint(3, 5), R=max(2, max(a, h)), den=10, center=c, rmin=0.4))
        if ok_position(a, h, vs):
            return {"cap": [a, h], "poly": vs}
    return None


def lens_sensitive(case):
    """some piece of the arc between consecutive crossings has its chord midpoint and its arc midpoint on different
    sides of B's boundary (B reaches into the lens between the piece and its chord without crossing the piece)"""
    a, h = float(case["cap"][0]), float(case["cap"][1])
    vs = [(float(p[0]), float(p[1])) for p in case["poly"]]
    ts = [0.0, 1.0]
    for i in range(len(vs)):
        ts += [c[2] for c in _crossings(a, h, vs[i], vs[(i + 1) % len(vs)]) if c[1] == "arc"]
    ts = sorted(ts)
    arc = lambda t: (a * (1 - 2 * t), par(a, h, a * (1 - 2 * t)))
    bj = G.verts_to_jordan(case["poly"])
    for t0, t1 in zip(ts, ts[1:]):
        p0, p1, pm = arc(t0), arc(t1), arc((t0 + t1) / 2)
        cm = ((p0[0] + p1[0]) / 2, (p0[1] + p1[1]) / 2)
        ra, rc = O.region_simple(bj, (F(pm[0]), F(pm[1]))), O.region_simple(bj, (F(cm[0]), F(cm[1])))
        if "bdry" not in (ra, rc) and ra != rc:
            return True
    return False


def lens_case(rng):
    """a cap_case that is lens_sensitive and outside the F12 band (chord_band)"""
    for _ in range(400):
        c = cap_case(rng)
        if c and lens_sensitive(c) and not chord_band(c):
            return c
    return None


def mk(case):
    a, h = float(case["cap"][0]), float(case["cap"][1])
    J = I.JordanCurve.from_ctrlpoints([[(-a, 0.0), (a, 0.0)], [(a, 0.0), (0.0, 2 * h), (-a, 0.0)]])
    return I.SimpleShape(J), I.Primitive.polygon([(float(p[0]), float(p[1])) for p in case["poly"]])


def region_float(sd, p):
    """is p inside the shape with data sd (segments of degree <= 2)?  Parity of the crossings of the upward vertical
    ray from p with all boundary curves; float arithmetic -- use away from the boundaries and from vertex abscissae"""
    if sd[0] == "E":
        return False
    if sd[0] == "W":
        return True
    tot = 0
    for j in O.shape_jordans(sd):
        for s in j:
            xs = [float(c[0]) for c in s]
            ys = [float(c[1]) for c in s]
            if len(s) == 2:
                if (xs[0] <= p[0]) != (xs[1] <= p[0]):
                    t = (p[0] - xs[0]) / (xs[1] - xs[0])
                    if ys[0] + t * (ys[1] - ys[0]) > p[1]:
                        tot += 1
            elif len(s) == 3:
                a2, b2, c2 = xs[0] - 2 * xs[1] + xs[2], 2 * (xs[1] - xs[0]), xs[0] - p[0]
                ts = []
                if abs(a2) < 1e-9 * max(1.0, abs(b2)):
                    if abs(b2) > 0:
                        ts = [-c2 / b2]
                else:
                    d = b2 * b2 - 4 * a2 * c2
                    if d >= 0:
                        r = math.sqrt(d)
                        ts = [(-b2 - r) / (2 * a2), (-b2 + r) / (2 * a2)]
                for t in ts:
                    if 0 <= t < 1:
                        if ys[0] * (1 - t) ** 2 + 2 * ys[1] * t * (1 - t) + ys[2] * t * t > p[1]:
                            tot += 1
            else:
                raise ValueError("segment of degree %d" % (len(s) - 1))
    return tot % 2 == 1          # (results of operators on a bounded cap and a bounded polygon are bounded)


def sample_points(case, sd, rng, n=80):
    a, h = float(case["cap"][0]), float(case["cap"][1])
    bj = G.verts_to_jordan(case["poly"])
    vxs = [float(c[0]) for j in (O.shape_jordans(sd) if sd[0] not in "EW" else []) for s in j for c in (s[0], s[-1])]
    out = []
    for _ in range(n):
        x, y = rng.uniform(-a - 1, a + 1), rng.uniform(-1.5, h + 1)
        if abs(y) < 0.01 or abs(y - par(a, h, x)) < 0.01:
            continue
        pf = (F(x), F(y))
        if any(dist2_point_seg(pf, e[0], e[1]) < F(1, 10 ** 8) for e in O.edges_of(bj)):
            continue
        if any(abs(x - vx) < 1e-6 for vx in vxs):
            continue
        out.append(((x, y), 0 < y < par(a, h, x), O.region_simple(bj, pf) == "in"))
    return out


def chord_band(case):
    """F12 at work inside an operator: some point the operator classifies against the cap (a vertex of B or the
    midpoint of a piece of B between crossings) lies between the arc and the chords the winding number uses in its
    place (the chords at t = 0, 1/2, 1 of every piece of the arc between crossings)"""
    a, h = float(case["cap"][0]), float(case["cap"][1])
    vs = [(float(p[0]), float(p[1])) for p in case["poly"]]
    ts, tested = [0.0, 1.0], []
    for i in range(len(vs)):
        p, q = vs[i], vs[(i + 1) % len(vs)]
        cr = _crossings(a, h, p, q)
        ss = [0.0] + [c[0] for c in cr] + [1.0]
        tested.append(p)
        for s0, s1 in zip(ss, ss[1:]):
            s = (s0 + s1) / 2
            tested.append((p[0] + s * (q[0] - p[0]), p[1] + s * (q[1] - p[1])))
        ts += [c[2] for c in cr if c[1] == "arc"]
    arc = lambda t: (a * (1 - 2 * t), par(a, h, a * (1 - 2 * t)))
    # the containment short-cuts look at the arc before it is split, the recombination after
    for nodes in ([0.0, 1.0], sorted(ts)):
        poly = []
        for t0, t1 in zip(nodes, nodes[1:]):
            poly += [arc(t0), arc((t0 + t1) / 2)]
        poly.append(arc(1.0))                      # = (-a, 0); the base closes the polygon
        pj = G.verts_to_jordan([(F(x), F(y)) for x, y in poly])
        for x, y in tested:
            exact = 0 < y < par(a, h, x)
            approx = O.region_simple(pj, (F(x), F(y))) == "in"
            if exact != approx:
                return True
    return False
