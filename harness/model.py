"""Client of the extracted model (build/mvdriver)."""
import os
import subprocess

from . import wire as W

VERIF = os.path.dirname(os.path.dirname(os.path.abspath(__file__)))
DRIVER = os.path.join(VERIF, "build", "mvdriver")


class BadRequest(Exception):
    pass


class Model:
    def __init__(self):
        self.p = subprocess.Popen(
            ["bash", "-c", "ulimit -s unlimited 2>/dev/null; exec " + DRIVER],
            stdin=subprocess.PIPE, stdout=subprocess.PIPE, text=True, bufsize=1)
        self.calls = 0
        self.log = []          # (request, answer) pairs for the vm_compute cross-check

    def raw(self, req):
        line = W.dumps(req)
        self.p.stdin.write(line + "\n")
        self.p.stdin.flush()
        ans = self.p.stdout.readline()
        if not ans:
            raise RuntimeError("model driver died on " + line[:200])
        ans = ans.strip()
        self.calls += 1
        if len(self.log) < 4000 and len(line) < 4000:
            self.log.append((line, ans))
        out = W.loads(ans)
        if out == [9]:
            raise BadRequest(line[:300])
        if out == [8]:
            raise RuntimeError("model stack overflow on " + line[:200])
        return out

    def close(self):
        try:
            self.p.stdin.close()
            self.p.wait(timeout=5)
        except Exception:
            self.p.kill()

    # ---- segment level ----
    def eval(self, s, t): return W.d_point(self.raw([1, W.e_seg(s), W.e_Q(t)]))
    def derivate(self, s, k): return W.d_seg(self.raw([2, W.e_seg(s), k]))
    def split_many(self, s, ts): return [W.d_seg(x) for x in self.raw([3, W.e_seg(s), [W.e_Q(t) for t in ts]])]
    def seg_box(self, s): return W.d_box(self.raw([4, W.e_seg(s)]))
    def on_seg(self, s, p): return bool(self.raw([5, W.e_seg(s), W.e_point(p)]))
    def seg_wn(self, s, p): return self.raw([6, W.e_seg(s), W.e_point(p)])
    def bernstein(self, s, t): return W.d_point(self.raw([7, W.e_seg(s), W.e_Q(t)]))
    def vertical(self, s, ex, ey): return W.d_Q(self.raw([8, W.e_seg(s), ex, ey]))
    def seg_and(self, a, b): return W.d_res(W.d_inter, self.raw([9, W.e_seg(a), W.e_seg(b)]))
    # ---- jordan level ----
    def from_vertices(self, vs): return W.d_res(W.d_jordan, self.raw([10, W.e_seg(vs)]))
    def from_ctrlpoints(self, cs): return W.d_res(W.d_jordan, self.raw([11, W.e_jordan(cs)]))
    def split(self, j, idx, nodes): return W.d_res(W.d_jordan, self.raw([12, W.e_jordan(j), list(idx), [W.e_Q(t) for t in nodes]]))
    def clean(self, j): return W.d_res(W.d_jordan, self.raw([13, W.e_jordan(j)]))
    def intersection(self, a, b, eqb=True, endp=True):
        return W.d_res(lambda x: [W.d_irow(r) for r in x], self.raw([14, W.e_jordan(a), W.e_jordan(b), bool(eqb), bool(endp)]))
    def jordan_eq(self, a, b): return W.d_res(W.d_bool, self.raw([15, W.e_jordan(a), W.e_jordan(b)]))
    def jordan_area(self, j): return W.d_Q(self.raw([16, W.e_jordan(j)]))
    def jordan_wn2(self, j, p): return self.raw([17, W.e_jordan(j), W.e_point(p)])
    def vertices(self, j): return W.d_seg(self.raw([18, W.e_jordan(j)]))
    def invert(self, j): return W.d_jordan(self.raw([19, W.e_jordan(j)]))
    def jordan_box(self, j): return W.d_box(self.raw([20, W.e_jordan(j)]))
    def jordan_has(self, j, p): return bool(self.raw([21, W.e_jordan(j), W.e_point(p)]))
    def points(self, j, n): return W.d_seg(self.raw([22, W.e_jordan(j), n]))
    def jordan_vertical(self, j, ex, ey): return W.d_Q(self.raw([23, W.e_jordan(j), ex, ey]))
    # ---- shape level ----
    def contains_point(self, s, p, b=True): return bool(self.raw([30, W.e_shape(s), W.e_point(p), bool(b)]))
    def contains_jordan(self, s, j, b=True): return W.d_res(W.d_bool, self.raw([31, W.e_shape(s), W.e_jordan(j), bool(b)]))
    def contains_shape(self, a, b): return W.d_res(W.d_bool, self.raw([32, W.e_shape(a), W.e_shape(b)]))
    def shape_area(self, s): return W.d_Q(self.raw([33, W.e_shape(s)]))
    def moment(self, s, a, b): return W.d_Q(self.raw([34, W.e_shape(s), a, b]))
    def op_not(self, s): return W.d_res(W.d_shape, self.raw([35, W.e_shape(s)]))
    def eval_expr(self, env, e):
        return W.d_res(lambda x: ([W.d_shape(s) for s in x[0]], W.d_shape(x[1])),
                       self.raw([36, [W.e_shape(s) for s in env], W.e_expr(e)]))
    def shape_eq(self, a, b): return W.d_res(W.d_bool, self.raw([37, W.e_shape(a), W.e_shape(b)]))
    def copy_shape(self, s): return W.d_res(W.d_shape, self.raw([38, W.e_shape(s)]))
    def shape_from_jordans(self, js): return W.d_res(W.d_shape, self.raw([39, [W.e_jordan(j) for j in js]]))
    # ---- numbers ----
    def norm_coord(self, q):
        r = self.raw([40, W.e_Q(q)])
        return W.d_Q(r[1]) if r[0] == 0 else None
    def limit_den(self, N, num, den):
        r = self.raw([41, N, num, den])
        return (r[1], r[2]) if r[0] == 0 else None
    # ---- C05 computable premise, primitives, plot ----
    def branch_faithful(self, a, b): return bool(self.raw([42, W.e_shape(a), W.e_shape(b)]))
    def diff_hyps(self, ja, jb, p): return bool(self.raw([48, W.e_jordan(ja), W.e_jordan(jb), W.e_point(p)]))
    def convex_in(self, va, vb):
        """C03_convex_in_iff on two vertex lists (A = va contains B = vb?): (convex a, convex b, tol_tested, area A >= area B,
        the model's answer, poly_of va, poly_of vb)"""
        r = self.raw([50, [W.e_point(q) for q in va], [W.e_point(q) for q in vb]])
        return tuple(bool(x) for x in r[:4]) + (W.d_res(lambda x: bool(x), r[4]), W.d_jordan(r[5]), W.d_jordan(r[6]))
    def convex_hyps(self, va, vb, p):
        """C01_*_sound_convex on two vertex lists: (convex a, convex b, hyps |, hyps &, hyps -, poly_of va, poly_of vb)"""
        r = self.raw([49, [W.e_point(q) for q in va], [W.e_point(q) for q in vb], W.e_point(p)])
        return tuple(bool(x) for x in r[:5]) + (W.d_jordan(r[5]), W.d_jordan(r[6]))
    def sound_hyps(self, ja, jb, closed, inside, p): return bool(self.raw([47, W.e_jordan(ja), W.e_jordan(jb), bool(closed), bool(inside), W.e_point(p)]))
    def prim(self, kind, arg, center):
        """kind 0 square / 1 triangle / 2 regular_polygon(4); arg = pyarg wire form"""
        return W.d_res(W.d_shape, self.raw([43, kind, arg, W.e_point(center)]))
    def prim_circle(self, n, r, h, center):
        return W.d_res(W.d_shape, self.raw([44, n, W.e_Q(r), W.e_Q(h), W.e_point(center)]))
    def plot_shape(self, s):
        out = []
        for p in self.raw([45, W.e_shape(s)]):
            if p[0] == 4:
                out.append(("background",))
            elif p[0] == 3:
                out.append(("outline", bool(p[1]), [(W.d_point(v[0]), v[1]) for v in p[2]]))
            else:
                out.append(("fill" if p[0] == 1 else "hole", [(W.d_point(v[0]), v[1]) for v in p[1]]))
        return out
    def decode_path_jordan(self, j):
        r = self.raw([46, W.e_jordan(j)])
        return [W.d_jordan(x) for x in r[1]] if r[0] == 0 else None
