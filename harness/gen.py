"""Generators of structured, mostly valid inputs.  Every random choice comes from the
random.Random instance passed in, so a seed replays exactly."""
import math
from fractions import Fraction as F

from . import oracle as O


# ---------------- exact polygon predicates ----------------
def orient(a, b, c):
    return (b[0] - a[0]) * (c[1] - a[1]) - (b[1] - a[1]) * (c[0] - a[0])


def segs_proper_cross(a, b, c, d):
    o1, o2, o3, o4 = orient(a, b, c), orient(a, b, d), orient(c, d, a), orient(c, d, b)
    return ((o1 > 0) != (o2 > 0)) and ((o3 > 0) != (o4 > 0)) and 0 not in (o1, o2, o3, o4)


def segs_touch(a, b, c, d):
    """share any point (including improper contact)"""
    o1, o2, o3, o4 = orient(a, b, c), orient(a, b, d), orient(c, d, a), orient(c, d, b)
    if ((o1 > 0) != (o2 > 0) or 0 in (o1, o2)) and ((o3 > 0) != (o4 > 0) or 0 in (o3, o4)):
        if o1 == o2 == o3 == o4 == 0:
            return (max(min(a[0], b[0]), min(c[0], d[0])) <= min(max(a[0], b[0]), max(c[0], d[0])) and
                    max(min(a[1], b[1]), min(c[1], d[1])) <= min(max(a[1], b[1]), max(c[1], d[1])))
        if (o1 > 0 and o2 > 0) or (o1 < 0 and o2 < 0) or (o3 > 0 and o4 > 0) or (o3 < 0 and o4 < 0):
            return False
        return True
    return False


def poly_edges(vs):
    return list(zip(vs, vs[1:] + vs[:1]))


def is_simple_polygon(vs, min_sin=F(1, 1000)):
    n = len(vs)
    if n < 3 or len(set(vs)) != n:
        return False
    es = poly_edges(vs)
    for i in range(n):
        a, b, c = vs[i - 1], vs[i], vs[(i + 1) % n]
        cr = orient(a, b, c)
        # no (nearly) collinear consecutive edges: sin^2 >= min_sin^2
        l1 = (b[0] - a[0]) ** 2 + (b[1] - a[1]) ** 2
        l2 = (c[0] - b[0]) ** 2 + (c[1] - b[1]) ** 2
        if cr * cr < min_sin * min_sin * l1 * l2:
            return False
    for i in range(n):
        for k in range(i + 1, n):
            if k == i or (k + 1) % n == i or (i + 1) % n == k:
                continue
            if segs_touch(*es[i], *es[k]):
                return False
    return O.signed_area2_poly([[a, b] for a, b in es]) != 0


def verts_to_jordan(vs):
    return [[a, b] for a, b in poly_edges(list(vs))]


def jordan_verts(j):
    return [s[0] for s in j]


def star_polygon(rng, n=None, R=20, den=1, center=None, rmin=0.35):
    """simple polygon, star-shaped about a random centre, coordinates k/den"""
    for _ in range(200):
        k = n or rng.randint(3, 8)
        cx, cy = center if center is not None else (rng.randint(-R, R), rng.randint(-R, R))
        angs = sorted(rng.uniform(0, math.tau) for _ in range(k))
        vs = []
        for a in angs:
            r = rng.uniform(rmin, 1.0) * R
            vs.append((F(round((cx + r * math.cos(a)) * den), den), F(round((cy + r * math.sin(a)) * den), den)))
        if is_simple_polygon(vs):
            return vs
    return [(F(0), F(0)), (F(R), F(0)), (F(0), F(R))]


def lattice_polygon(rng, n=None, R=8):
    for _ in range(500):
        k = n or rng.randint(3, 6)
        vs = [(F(rng.randint(-R, R)), F(rng.randint(-R, R))) for _ in range(k)]
        if is_simple_polygon(vs):
            return vs
    return star_polygon(rng, n, R)


def ccw(vs):
    a2 = sum(a[0] * b[1] - a[1] * b[0] for a, b in poly_edges(vs))
    return vs if a2 > 0 else vs[::-1]


def cw(vs):
    return ccw(vs)[::-1]


def point_strictly_inside(vs, p):
    j = verts_to_jordan(vs)
    return (not O.on_boundary_poly(j, p)) and O.wn(j, p) != 0


def poly_inside_poly(inner, outer):
    """inner strictly inside outer (no contact)"""
    for a, b in poly_edges(inner):
        for c, d in poly_edges(outer):
            if segs_touch(a, b, c, d):
                return False
    return all(point_strictly_inside(outer, p) for p in inner)


def polys_disjoint(p, q):
    for a, b in poly_edges(p):
        for c, d in poly_edges(q):
            if segs_touch(a, b, c, d):
                return False
    return not point_strictly_inside(q, p[0]) and not point_strictly_inside(p, q[0])


def general_position(js1, js2):
    """boundaries meet only in proper crossings (no vertex on an edge, no overlap)"""
    for j1 in js1:
        for j2 in js2:
            for a, b in O.edges_of(j1):
                for c, d in O.edges_of(j2):
                    if segs_touch(a, b, c, d) and not segs_proper_cross(a, b, c, d):
                        return False
    return True


def near_vertex_contact(js1, js2, tol=F(1, 10 ** 6)):
    """some pair of edges meets (or, prolonged by tol, would meet) at a parameter within tol of an end of either edge:
    the library takes such a crossing for a contact at a vertex (its split ignores parameters within 1e-6 of 0 and 1)"""
    for j1 in js1:
        for j2 in js2:
            for a, b in O.edges_of(j1):
                for c, d in O.edges_of(j2):
                    d1 = (b[0] - a[0], b[1] - a[1])
                    d2 = (d[0] - c[0], d[1] - c[1])
                    den = d1[0] * d2[1] - d1[1] * d2[0]
                    if den == 0:
                        continue
                    w = (c[0] - a[0], c[1] - a[1])
                    u = (w[0] * d2[1] - w[1] * d2[0]) / den
                    v = (w[0] * d1[1] - w[1] * d1[0]) / den
                    if -tol <= u <= 1 + tol and -tol <= v <= 1 + tol:
                        if min(abs(u), abs(u - 1), abs(v), abs(v - 1)) < tol:
                            return True
    return False


def vertex_crossing(rng, den=10):
    """a polygon A and a triangle B, one edge of B passing through a vertex of A with A's neighbouring edges on
    opposite sides (a proper crossing AT a vertex); coordinates k/den -- as floats the crossing falls within an ulp of
    the vertex"""
    for _ in range(200):
        P = ccw(star_polygon(rng, n=rng.randint(3, 5), R=30, den=1, center=(0, 0), rmin=0.5))
        P = [(p[0] / den, p[1] / den) for p in P]
        n = len(P)
        i = rng.randrange(n)
        v, a, b = P[i], P[i - 1], P[(i + 1) % n]
        d = (F(rng.randint(-20, 20), den), F(rng.randint(-20, 20), den))
        if d == (0, 0):
            continue
        sa = d[0] * (a[1] - v[1]) - d[1] * (a[0] - v[0])
        sb = d[0] * (b[1] - v[1]) - d[1] * (b[0] - v[0])
        if sa * sb >= 0:
            continue
        k1, k2 = F(rng.randint(1, 3)), F(rng.randint(1, 3))
        Q = [(v[0] - k1 * d[0], v[1] - k1 * d[1]), (v[0] + k2 * d[0], v[1] + k2 * d[1]),
             (F(rng.randint(-40, 40), den), F(rng.randint(-40, 40), den))]
        if not is_simple_polygon(Q):
            continue
        return verts_to_jordan(P), verts_to_jordan(ccw(Q))
    return None


def count_crossings(js1, js2):
    n = 0
    for j1 in js1:
        for j2 in js2:
            for a, b in O.edges_of(j1):
                for c, d in O.edges_of(j2):
                    if segs_proper_cross(a, b, c, d):
                        n += 1
    return n


# ---------------- shapes (plain data) ----------------
def simple_shape(rng, R=20, den=1, bounded=None, n=None, center=None):
    vs = star_polygon(rng, n=n, R=R, den=den, center=center) if rng.random() < 0.7 else lattice_polygon(rng, n=n, R=R)
    if center is not None:
        vs = star_polygon(rng, n=n, R=R, den=den, center=center)
    if bounded is None:
        bounded = rng.random() < 0.8
    vs = ccw(vs) if bounded else cw(vs)
    return ("S", verts_to_jordan(vs))


def holed_shape(rng, R=20, den=1, nholes=None):
    """one CCW outer polygon minus 1..2 disjoint polygons strictly inside"""
    for _ in range(100):
        outer = ccw(star_polygon(rng, R=R, den=den, rmin=0.7))
        k = nholes or rng.randint(1, 2)
        holes = []
        tries = 0
        while len(holes) < k and tries < 60:
            tries += 1
            cx = rng.uniform(-1, 1) * R * 0.5 + float(sum(p[0] for p in outer)) / len(outer)
            cy = rng.uniform(-1, 1) * R * 0.5 + float(sum(p[1] for p in outer)) / len(outer)
            h = star_polygon(rng, n=rng.randint(3, 5), R=max(2, R // 5), den=den, center=(cx, cy))
            if poly_inside_poly(h, outer) and all(polys_disjoint(h, g) for g in holes):
                holes.append(cw(h))
        if len(holes) == k:
            return ("C", [verts_to_jordan(outer)] + [verts_to_jordan(h) for h in holes])
    return simple_shape(rng, R, den, True)


def disjoint_shape(rng, R=20, den=1, ncomp=None):
    for _ in range(100):
        k = ncomp or rng.randint(2, 3)
        comps = []
        polys = []
        tries = 0
        while len(comps) < k and tries < 60:
            tries += 1
            c = (rng.randint(-2 * R, 2 * R), rng.randint(-2 * R, 2 * R))
            if rng.random() < 0.3:
                sh = holed_shape(rng, R=max(6, R // 2), den=den)
                if sh[0] != "C":
                    continue
                # translate
                sh = ("C", [[[(p[0] + c[0], p[1] + c[1]) for p in s] for s in j] for j in sh[1]])
                outer = jordan_verts(sh[1][0])
            else:
                vs = ccw(star_polygon(rng, R=max(4, R // 2), den=den, center=c))
                sh = ("S", verts_to_jordan(vs))
                outer = vs
            if all(polys_disjoint(outer, q) and not poly_inside_poly(outer, q) and not poly_inside_poly(q, outer)
                   for q in polys):
                comps.append(sh)
                polys.append(outer)
        if len(comps) == k:
            return ("D", comps)
    return simple_shape(rng, R, den, True)


def unbounded_connected(rng, R=20, den=1, n=None):
    """the plane minus 2-3 pairwise disjoint polygons: a ConnectedShape whose members are all complements"""
    for _ in range(50):
        d = disjoint_shape(rng, R=R, den=den, ncomp=n or rng.choice([2, 3]))
        if d[0] == "D" and all(c[0] == "S" for c in d[1]):
            return ("C", [[list(reversed(sg)) for sg in reversed(c[1])] for c in d[1]])
    return simple_shape(rng, R, den, False)


def _no_spike(j):
    """no junction at which the curve doubles back exactly on itself (outgoing tangent = minus incoming tangent)"""
    n = len(j)
    for i in range(n):
        a, b = j[i], j[(i + 1) % n]
        d1 = (a[-1][0] - a[-2][0], a[-1][1] - a[-2][1])
        d2 = (b[1][0] - b[0][0], b[1][1] - b[0][1])
        if d1[0] * d2[1] - d1[1] * d2[0] == 0 and d1[0] * d2[0] + d1[1] * d2[1] <= 0:
            return False
    return True


def coincident_curve(rng, R=6):
    for _ in range(100):
        j = _coincident_curve(rng, R)
        if _no_spike(j):
            return j
    return [[(F(0), F(0)), (F(2), F(2)), (F(4), F(0))], [(F(4), F(0)), (F(4), F(3))], [(F(4), F(3)), (F(2), F(2))],
            [(F(2), F(2)), (F(0), F(3))], [(F(0), F(3)), (F(0), F(0))]]


def _coincident_curve(rng, R=6):
    """closed curves (degree 1..3 segments) in which two DISTINCT control points have the same coordinates:
    cubic pieces with doubled handles, or a quadratic piece whose middle control point sits on a vertex elsewhere"""
    if rng.random() < 0.5:
        vs = ccw(star_polygon(rng, n=rng.randint(3, 5), R=R))
        j = []
        for a, b in poly_edges(vs):
            if rng.random() < 0.6:
                h = ((a[0] + b[0]) / 2 + F(rng.choice([-1, 1]), 2), (a[1] + b[1]) / 2 + F(rng.choice([-1, 1]), 2))
                if h in (a, b):          # a handle on an end point would make a cusp (irregular segment)
                    h = (h[0] + F(3, 4), h[1] - F(1, 4))
                j.append([a, h, h, b])
            else:
                j.append([a, b])
        if all(len(sg) == 2 for sg in j):
            a, b = j[0]
            h = ((a[0] + b[0]) / 2 + F(1, 2), (a[1] + b[1]) / 2 + F(1, 2))
            j[0] = [a, h, h, b]
        return j
    x, y = F(rng.randint(-5, 5)), F(rng.randint(-5, 5))
    k = F(rng.randint(1, 3))
    P = lambda u, v: (x + k * u, y + k * v)
    return [[P(0, 0), P(2, 2), P(4, 0)], [P(4, 0), P(4, 3)], [P(4, 3), P(2, 2)], [P(2, 2), P(0, 3)], [P(0, 3), P(0, 0)]]


def complement(s):
    """data-level complement by reversing every curve (kind re-derived by the caller via the implementation)"""
    raise NotImplementedError


def any_shape(rng, R=20, den=1, kinds=("S", "S", "S", "C", "D", "U")):
    k = rng.choice(kinds)
    if k == "UC":
        return unbounded_connected(rng, R, den)
    if k == "S":
        return simple_shape(rng, R, den, True)
    if k == "U":
        return simple_shape(rng, R, den, False)
    if k == "C":
        return holed_shape(rng, R, den)
    return disjoint_shape(rng, R, den)


def shape_jordans(s):
    return O.shape_jordans(s)


def gp_pair(rng, R=20, den=1, kinds=("S", "S", "S", "C", "D", "U"), need_cross=False, tries=200):
    for _ in range(tries):
        a = any_shape(rng, R, den, kinds)
        b = any_shape(rng, R, den, kinds)
        ja, jb = shape_jordans(a), shape_jordans(b)
        if not general_position(ja, jb):
            continue
        if need_cross and count_crossings(ja, jb) < 2:
            continue
        return a, b
    return None


def random_expr(rng, nvars, depth):
    if depth == 0 or rng.random() < 0.15:
        return ("var", rng.randrange(nvars))
    r = rng.random()
    if r < 0.12:
        return (rng.choice(["~", "neg"]), random_expr(rng, nvars, depth - 1))
    op = rng.choice(["|", "&", "-", "^", "|", "&", "-", "+", "*"])
    return (op, random_expr(rng, nvars, depth - 1), random_expr(rng, nvars, depth - 1))


def expr_str(e, names="ABCDEFG"):
    if e[0] == "var":
        return names[e[1]]
    if e[0] == "~":
        return "~" + expr_str(e[1], names)
    if e[0] == "neg":
        return "-" + expr_str(e[1], names)
    return "(" + expr_str(e[1], names) + " " + e[0] + " " + expr_str(e[2], names) + ")"


def random_seg(rng, degree, R=10, den=4):
    return [(F(rng.randint(-R * den, R * den), den), F(rng.randint(-R * den, R * den), den)) for _ in range(degree + 1)]


def random_Q(rng, lo=0, hi=1, den=None):
    d = den or rng.choice([2, 3, 4, 5, 7, 8, 16, 100, 1000])
    return F(rng.randint(int(lo * d), int(hi * d)), d)
